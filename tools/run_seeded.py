#!/usr/bin/env python3
"""Apply every seeded change under /verif/seeded/<name>/patch.diff to a scratch worktree of /repo's HEAD (VF_REPO points
the checks at it), run the check(s) of the property it breaks, reset the worktree, and write /verif/seeded/README.md +
results.json.  /repo itself is never modified; the scratch worktree is removed at the end."""
import glob
import json
import os
import subprocess
import sys
import time

HERE = os.path.dirname(os.path.dirname(os.path.abspath(__file__)))
REPO = "/repo"
WT = "/tmp/vf_seeded_wt"


def sh(cmd, **kw):
    return subprocess.run(cmd, shell=True, stdout=subprocess.PIPE, stderr=subprocess.STDOUT, text=True, **kw)


def main():
    only = sys.argv[1:]
    if sh("git -C %s status --porcelain" % REPO).stdout.strip():
        sys.exit("refusing to run: /repo has uncommitted changes")
    sh("git -C %s worktree remove --force %s" % (REPO, WT))
    r = sh("git -C %s worktree add --detach %s HEAD" % (REPO, WT))
    if r.returncode != 0:
        sys.exit("cannot create scratch worktree: " + r.stdout)
    try:
        _run(only)
    finally:
        sh("git -C %s worktree remove --force %s" % (REPO, WT))
        sh("git -C %s worktree prune" % REPO)


def _run(only):
    rows = []
    for meta_p in sorted(glob.glob(os.path.join(HERE, "seeded", "*", "meta.json"))):
        d = os.path.dirname(meta_p)
        name = os.path.basename(d)
        if only and not any(o in name for o in only):
            continue
        meta = json.load(open(meta_p))
        patch = os.path.join(d, "patch.diff")
        pid = meta["property"]
        r = sh("git -C %s apply --check %s" % (WT, patch))
        if r.returncode != 0:
            rows.append((name, pid, "patch does not apply", "", 0))
            continue
        t0 = time.time()
        verdicts, labels = [], []
        try:
            sh("git -C %s apply %s" % (WT, patch))
            tier = meta.get("tier", "quick")
            for chk in meta.get("checks", [pid]):
                r = sh("cd %s && VF_REPO=%s ./check %s --tier %s" % (HERE, WT, chk, tier), timeout=3600)
                out = r.stdout
                lab = sorted({l.split("label=")[1].split()[0] for l in out.splitlines() if "label=" in l and "signature=" in l})
                v = {0: "MISSED (exit 0)", 1: "caught", 3: "inconclusive (exit 3)"}.get(r.returncode, "exit %d" % r.returncode)
                verdicts.append("%s: %s" % (chk, v))
                labels += ["%s:%s" % (chk, x) for x in lab]
        finally:
            sh("git -C %s checkout -- ." % WT)
        verdict = "; ".join(verdicts)
        rows.append((name, pid, verdict, ", ".join(labels)[:200], round(time.time() - t0)))
        print(name, pid, verdict, labels[:3], flush=True)
    assert not sh("git -C %s status --porcelain" % REPO).stdout.strip()
    res_p = os.path.join(HERE, "seeded", "results.json")
    old = {}
    if os.path.exists(res_p):
        old = {r["name"]: r for r in json.load(open(res_p))}
    for n, p, v, l, t in rows:
        old[n] = {"name": n, "property": p, "verdict": v, "labels": l, "seconds": t}
    json.dump(sorted(old.values(), key=lambda r: r["name"]), open(res_p, "w"), indent=1)
    with open(os.path.join(HERE, "seeded", "README.md"), "w") as fh:
        fh.write("# Seeded changes and the checks that catch them\n\nEach directory holds `patch.diff` (never committed to /repo), the sub-agent's demonstration and `meta.json`.\n"
                 "Regenerate with `tools/run_seeded.py` (applies each patch to the scratch worktree /tmp/vf_seeded_wt of /repo HEAD, runs the property check on it through VF_REPO, resets it; /repo itself is never touched).\n\n| seeded change | property | outcome of `./check` | violated assertion labels | s |\n|---|---|---|---|---|\n")
        for r in sorted(old.values(), key=lambda r: r["name"]):
            fh.write("| %s | %s | %s | %s | %s |\n" % (r["name"], r["property"], r["verdict"], r["labels"], r["seconds"]))


if __name__ == "__main__":
    main()
