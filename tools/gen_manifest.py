#!/usr/bin/env python3
"""Regenerates /verif/MANIFEST.json from the table below (keeps the file valid at all times)."""
import json
import os

HERE = os.path.dirname(os.path.dirname(os.path.abspath(__file__)))

TECH = "bounded symbolic execution of the repository's Python source over numpy/pandas models; z3 decides every path's obligations (unsat of path && !property); counterexamples replayed on the real stack; a sample of the proved obligations re-decided by the cvc5 binary"
NOTE = ("Trusted base: z3 5.1; the engine's fork/replay logic; the numpy/pandas models and contract stubs (continuously compared with the real "
        "libraries by per-path trace validation); the compat shims of the concrete world; floats modelled as exact reals; integer time indices; "
        "lru_cache/joblib transparency; the size bounds listed in the evidence file.")

CLAIMED = {
    "C16": ("2 (C16)", "PARTIAL, stated: for nine closed-form panel transformers and the column ensemble around stub members (symbolic cell values on the real numpy/pandas), every permutation of the instances permutes the output rows (and, for the column ensemble, the predicted labels, ties included) identically, a single instance gives the corresponding batch row also in panels that mix integer-typed and real-valued cells, and a 3-D array input gives the same result as the nested frame. Fitted classifiers / regressors (C trees, numba dictionaries) are not applicable to this technique and not claimed."),
    "C17": ("2 (C17)", "PARTIAL, stated: the time-series-forest kernels run as functions on a duck-typed self with stub trees whose probability rows are symbolic distributions - averaged output is a distribution and equals the mean of the trees for either number of jobs, predict attains the maximal probability in the training label set (ints, strings, non-contiguous), features are (mean, std, slope) per interval in order, sampled intervals lie inside the series for every generator outcome (symbolic), forest-regressor prediction = mean of trees, column-ensemble probabilities = mean of the members on their own columns, BaseClassifier.predict/score. Anything needing a really fitted classifier is not applicable and not claimed."),
    "C12": ("2 (C12)", "PARTIAL, stated: for 13 series transformers, 10 forecasters / composites (symbolic world) and 12 panel transformers (token arrays on the real numpy/pandas; nested frame and 3-D array containers; PCATransformer over scikit-learn's documented copy contract), with symbolic values so that the outlier / missing-value / window branches are all explored: the caller's data after fit and after apply-type calls are term-equal to the data before, a repeated (and interleaved inverse) apply returns term-equal results, and a snapshot of the estimator's attributes is unchanged by apply-type calls. The thread-schedule / n_jobs / pickle / random_state parts of the property are not applicable to this technique and are not claimed."),
    "C14": ("2 (C14)", "Reduced to the listed closed-form transformers: PaddingTransformer, TruncationTransformer, PAA, Tabularizer, ColumnConcatenator, IntervalSegmenter (int and array intervals), SlidingWindowSegmenter, RandomIntervalFeatureExtractor (mean/std/slope of the fitted intervals), SeriesToSeriesRowTransformer, _slope, CosineTransformer and six Imputer rules, run on the real numpy/pandas with symbolic cell values (token arrays), plus TSInterpolator over the documented contract of scipy's interp1d and AutoCorrelationTransformer over a recording contract stub of statsmodels' acf (counterexamples are replayed on the real scipy / statsmodels against the textbook formulas); every output cell proved equal to the documented closed form (exactly, or within 1e-9 relative where the code itself computes with inexact float constants), rows in input order, requested lengths."),
    "C04": ("2 (C04)", "Reduced scope, stated: every public estimator class of the modules that load in the sandbox (listed in the evidence, with the modules that do not) is constructed with symbolic int/float/bool arguments and opaque tokens for everything else; stored attribute = get_params = passed value (z3 term equality / identity), clone and set_params round trips, unknown names rejected, nested component__param read/write and component replacement for the composites (symbolic values, concrete names), is_fitted False when fresh or cloned, apply-type methods raise NotFittedError before fit, fit returns self and leaves parameters unchanged."),
    "C15": ("2 (C15)", "Every conversion path of length <= 3 between nested (Series / array cells), 3-D array, multi-index, long and 2-D representations, plus check_X coercions and the nestedness predicates, executed on the real pandas with opaque symbolic tokens as cell values; each output cell is proved (term equality) to be the input token at the same (instance, column, time) position; sizes enumerated within the bounds. Weak use of the solver, stated as such."),
    "C19": ("2 (C19)", "The real Orchestrator / results classes executed with symbolic flags, symbolic store state and a symbolic failure point: (i) one loop iteration with 4 option flags and 3 existence answers as symbolic Booleans - skip iff nothing requested is missing and nothing is to be overwritten, exactly the missing/overwritten records written, records honest; (ii) run - fail at the K-th fit/predict (K symbolic, forked over every call) - resume - rerun - overwrite on a temporary on-disk store, compared with an uninterrupted run (files, registry, load_predictions); plus Orchestrator.fit and RAMResults read-back."),
    "C20": ("2 (C20)", "Thirteen classes of malformed input pushed through the public entry points (fit / update / predict of forecasters and composites, splitters, evaluate, grid search, temporal_train_test_split, the horizon constructor) with the offending quantity symbolic (index labels, exogenous index offsets, horizon values, window / step / period, window vs. series length) or drawn from a finite list of type faults; on every path: rejected iff invalid, exception type in {ValueError, TypeError, NotImplementedError}, is_fitted False afterwards (and, for a refused second fit of a fitted forecaster, cutoff and remembered series still those of the accepted fit), valid twin accepted."),
    "C03": ("2 (C03)", "Twenty forecaster kinds (naive variants, polynomial trend with and without intercept, statsmodels adapter, the Theta forecaster over the same results stub, the four reducers, ensemble, pipelines with a stub transformer and with the real Deseasonalizer, stacking, multiplexer, grid search) run symbolically with relative or absolute horizons given at fit or at predict, optionally after an update (re-estimating or not, fresh or re-sent data), on fresh and on previously fitted objects, for symbolic values and a symbolic integer index origin: one value per step, index = cutoff + fh, increasing, cutoff = last label after fit/update, finite values, and for the non-stub forecasters a second run at origin + delta (delta symbolic) proves shift invariance."),
    "C13": ("2 (C13)", "Deseasonalizer / ConditionalDeseasonalizer (symbolic seasonal vector, free integer offsets of the transformed and of an update stretch), Detrender (stub forecaster and exact least-squares default), Box-Cox / log (uninterpreted inverse pairs), TabularToSeriesAdaptor, OptionalPassthrough executed symbolically: inverse(transform(z)) = z, output index = input index, seasonal phase = position modulo sp relative to the training series before and after update, fit_transform = fit+transform; Hampel filter and Imputer rules proved invariant under a symbolic shift of the index."),
    "C10": ("2 (C10)", "Enumerated call programs over {update(T/F), predict, update_predict_single, update_predict} after fit, each executed symbolically (batch sizes, overlap, horizon, fh-at-fit flag forked; values and index origin symbolic) on NaiveForecaster variants (also with an integer-typed training series), custom-update members (one reading its stored horizon, one failing part-way through update_predict), an ensemble, a pipeline with a stateful transformer, a stacker and the polynomial trend forecaster (differential against fresh fits); remembered data = union with later values winning, cutoffs, forecasts equal to a fresh fit on the union (or to the old fitted state from the new cutoff), update_predict = the single-step sequence of a twin, cutoff restored."),
    "C08": ("2 (C08)", "ForecastingGridSearchCV / ForecastingRandomizedSearchCV fit executed symbolically (real evaluate, real splitter, real ParameterGrid/clone/set_params) over plain, pipeline (nested f__p) and multiplexer base forecasters with symbolic fold scores; cv_results_ rows, optimality of best_index_ in the declared direction, best_params_/best_score_, refit on the whole series, predict/update/cutoff delegation and NotFittedError without refit are proved on every ordering of the scores."),
    "C09": ("2 (C09)", "EnsembleForecaster (mean/median/min/max), OnlineEnsembleForecaster (stub weighting algorithm), TransformedTargetForecaster (with skip-inverse tags, transform/inverse_transform), MultiplexForecaster (incl. prediction-interval level and re-selection), StackingForecaster and two nestings executed symbolically around recording member / transformer / meta-regressor stubs with uninterpreted outputs; forecasts proved equal to the composition of the parts, and the data every inner estimator receives at fit and after an update proved to be in the right representation."),
    "C07": ("2 (C07)", "The real evaluate() executed symbolically with the real expanding / sliding / single-window splitters (symbolic window, step, horizon, index origin, series values), a recording forecaster and an asymmetric uninterpreted scoring function (one cell runs the library's own default metric for scoring=None); per fold the row's cutoff, training-window length and score = S(y_true, y_pred), the data handed to fit/update/predict, absence of leakage, X slices and returned data are proved for every path."),
    "C05": ("2 (C05)", "make_reduction with the four strategies and both scitypes executed symbolically around a recording regressor stub whose predictions are uninterpreted functions; every training row / target / prediction input is proved to be exactly the documented lag window (symbolic series values and index origin; window, horizon and series length forked within the bounds); recursive and dirrec forecasts proved equal to an independently built reference recursion."),
    "C06": ("2 (C06)", "Each of the 18 metric functions executed symbolically on free real truth/forecast/benchmark/training values, horizon weights and multioutput weights (shapes forked within the bounds); the returned term is proved equal to the textbook formula written independently (z3: UF-abstraction with semantic canonicalisation, then nonlinear real arithmetic), plus the laws (non-negativity, zero at a perfect forecast, sMAPE symmetry and bound, scale invariance, geometric-mean floor) and class-wrapper = function."),
    "C02": ("2 (C02)", "All feasible paths of the real ForecastingHorizon for unconstrained symbolic integer steps (any sign, order, duplicates), cutoffs and start values, built from int/list/array/Index/RangeIndex, relative and absolute; sortedness, exact conversions, round trips, partition, predicates, indexer and rejection of malformed values each discharged by z3."),
    "C11": ("2 (C11)", "All feasible paths of NaiveForecaster (last/mean/drift, seasonal or not, any window), in-sample prediction through the moving cutoff, PolynomialTrendForecaster (degree 1-2, exact rational least squares) and the statsmodels adapter, for symbolic real series values and symbolic integer index origin; forecasts proved equal to the textbook formulas."),
    "C01": ("2 (C01)", "All feasible paths of the real splitters / temporal_train_test_split for every window, step, initial-window, horizon and start flag (symbolic, unbounded integers) at series lengths up to the stated bound; each obligation of the property's arithmetic definition discharged by z3."),
}

NOT_BUILT = "in reach per DESIGN.md but the harness is not built yet"
NA = {
    "C18": "text formatting/parsing of floats plus file I/O: str.from_int / float printing time out in z3 and cvc5, CrossHair realises at open(); only concrete round trips remain, which is a different technique (DESIGN.md section 2, C18)",
}

ALL = ["C%02d" % i for i in range(1, 21)]


def main():
    checks = []
    for pid in ALL:
        if pid in CLAIMED:
            ref, text = CLAIMED[pid]
            checks.append({
                "property_id": pid,
                "quick_cmd": "./check %s --tier quick" % pid,
                "thorough_cmd": "./check %s --tier thorough" % pid,
                "evidence_file": "/verif/evidence/%s.json" % pid,
                "replay_cmd_template": "./check %s --replay {path}" % pid,
                "engine": "vf",
                "level_claimed": {"category": "model_checking", "text": text, "design_ref": "DESIGN.md section " + ref},
                "level_note": NOTE,
                "technique": TECH,
            })
    na = []
    for pid in ALL:
        if pid not in CLAIMED:
            na.append({"property_id": pid, "reason": NA.get(pid, NOT_BUILT)})
    m = {
        "version": 1,
        "setup_cmd": "./bootstrap.sh",
        "hooks": {
            "guard": "SKTIME_VERIF",
            "enable": "no hooks: the loader executes /repo's sources from outside; the variable is unused",
            "baseline_off_cmd": "cd /repo && /venv/bin/python -m pytest -ra -q -p no:cacheprovider --timeout=900 --continue-on-collection-errors",
            "source_commits": [],
            "add_only": True,
        },
        "engines": [{"name": "vf", "path": "/verif/vf", "serves_properties": sorted(CLAIMED), "kind_free_text": "own dynamic symbolic execution engine for Python (z3), numpy/pandas models, concrete replay world"}],
        "checks": checks,
        "not_applicable": na,
        "notes": "Exit codes: 0 held on everything explored; 1 + VIOLATION line = replayed counterexample; 3 = inconclusive (solver unknown, model gap, budget, non-reproducing counterexample, vacuity guard). Genuine defects: known_findings.json.",
    }
    with open(os.path.join(HERE, "MANIFEST.json"), "w") as fh:
        json.dump(m, fh, indent=1)
    print("claimed:", sorted(CLAIMED))


if __name__ == "__main__":
    main()
