"""Helpers shared by the property harnesses (work in both worlds)."""
from fractions import Fraction

import numpy as _np

from .symx import is_sym


def S(x):
    """scalar: strip numpy scalar types"""
    if isinstance(x, _np.generic):
        return x.item()
    return x


def L(x):
    """list of scalars of an array / index / series (either world)"""
    if x is None:
        return None
    if hasattr(x, "_mnp_values"):
        x = x._mnp_values()
    if hasattr(x, "to_numpy") and not hasattr(x, "_a"):
        x = x.to_numpy()
    out = []
    for v in x:
        if hasattr(v, "__len__") and not isinstance(v, str):
            out.append(L(v))
        else:
            out.append(S(v))
    return out


def fresh_ints(ctx, prefix, k):
    return [ctx.fresh_int("%s%d" % (prefix, i)) for i in range(k)]


def fresh_reals(ctx, prefix, k):
    return [ctx.fresh_real("%s%d" % (prefix, i)) for i in range(k)]


def increasing(ctx, xs, lo=None):
    if lo is not None and xs:
        ctx.assume(xs[0] >= lo)
    for a, b in zip(xs, xs[1:]):
        ctx.assume(a < b)


def excname(e):
    return type(e).__name__
