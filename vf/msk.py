"""Tiny model of the scikit-learn pieces PolynomialTrendForecaster uses (exact rational least squares).

X (the time axis) is concrete when the model is fitted, so the least-squares coefficients are *linear*
in the (symbolic) targets: beta = (X'X)^-1 X' y with rational matrix entries."""
from fractions import Fraction

from . import mnp
from .mnp import _obj, NDArr
from .symx import SInt, ModelGap, is_sym


def _solve(A, B):
    """Gauss-Jordan on Fractions; A (k x k) concrete, B list of k rows of (possibly symbolic) scalars"""
    k = len(A)
    A = [[Fraction(v) for v in row] for row in A]
    B = list(B)
    for c in range(k):
        piv = None
        for r in range(c, k):
            if A[r][c] != 0:
                piv = r
                break
        if piv is None:
            raise ModelGap("singular normal equations (rank-deficient design)")
        A[c], A[piv] = A[piv], A[c]
        B[c], B[piv] = B[piv], B[c]
        d = A[c][c]
        A[c] = [v / d for v in A[c]]
        B[c] = B[c] / d
        for r in range(k):
            if r != c and A[r][c] != 0:
                f = A[r][c]
                A[r] = [a - f * b for a, b in zip(A[r], A[c])]
                B[r] = B[r] - f * B[c]
    return B


class PolynomialFeatures:
    def __init__(self, degree=2, include_bias=True, interaction_only=False):
        self.degree = degree
        self.include_bias = include_bias

    def fit(self, X, y=None):
        return self

    def transform(self, X):
        a = _obj(X)
        if a.ndim != 2 or a.shape[1] != 1:
            raise ModelGap("PolynomialFeatures model: single feature only")
        lo = 0 if self.include_bias else 1
        rows = []
        for i in range(a.shape[0]):
            t = a[i, 0]
            row = []
            for d in range(lo, int(self.degree) + 1):
                p = 1
                for _ in range(d):
                    p = p * t
                row.append(p)
            rows.append(row)
        return mnp.array(rows) if rows else mnp.zeros((0, int(self.degree) + 1 - lo))

    def fit_transform(self, X, y=None):
        return self.fit(X).transform(X)


class LinearRegression:
    def __init__(self, fit_intercept=True, **kw):
        self.fit_intercept = fit_intercept

    def get_params(self, deep=True):
        return {"fit_intercept": self.fit_intercept}

    def fit(self, X, y):
        a = _obj(X)
        yv = list(_obj(y).ravel())
        rows = [list(a[i, :]) for i in range(a.shape[0])]
        if len(rows) != len(yv):
            raise ValueError("Found input variables with inconsistent numbers of samples: [%d, %d]" % (len(rows), len(yv)))
        if self.fit_intercept:
            rows = [[1] + r for r in rows]
        for r in rows:
            for j_, v in enumerate(r):
                if isinstance(v, SInt):
                    r[j_] = int(v)  # an integer feature: decided by forking over its feasible values (the harness bounds them)
                elif is_sym(v):
                    raise ModelGap("LinearRegression model: symbolic design matrix")
        k = len(rows[0])
        if len(rows) < k:
            raise ModelGap("LinearRegression model: under-determined system (minimum-norm solution not modelled)")
        A = [[sum(Fraction(r[i]) * Fraction(r[j]) for r in rows) for j in range(k)] for i in range(k)]
        B = []
        for i in range(k):
            s = 0
            for r, v in zip(rows, yv):
                s = s + Fraction(r[i]) * v
            B.append(s)
        beta = _solve(A, B)
        if self.fit_intercept:
            self.intercept_, self.coef_ = beta[0], mnp.array(beta[1:])
        else:
            self.intercept_, self.coef_ = 0, mnp.array(beta)
        return self

    def predict(self, X):
        a = _obj(X)
        coef = list(_obj(self.coef_))
        out = []
        for i in range(a.shape[0]):
            s = self.intercept_
            for c, v in zip(coef, a[i, :]):
                s = s + c * (int(v) if isinstance(v, SInt) else v)
            out.append(s)
        return mnp.array(out)


class Pipeline:
    def __init__(self, steps):
        self.steps = steps

    def fit(self, X, y=None):
        for _, t in self.steps[:-1]:
            X = t.fit_transform(X, y)
        self.steps[-1][1].fit(X, y)
        return self

    def predict(self, X):
        for _, t in self.steps[:-1]:
            X = t.transform(X)
        return self.steps[-1][1].predict(X)


def make_pipeline(*steps):
    return Pipeline([(type(s).__name__.lower(), s) for s in steps])


# ----------------------------------------------------------------------------------------------
# contract models of the scikit-learn / scipy helpers used by the forecasting metrics (symbolic world)
def _check_reg_targets(y_true, y_pred, multioutput, dtype="numeric"):
    yt = mnp.array(y_true)
    yp = mnp.array(y_pred)
    if len(_obj(yt)) != len(_obj(yp)):
        raise ValueError("Found input variables with inconsistent numbers of samples")
    if yt.ndim == 1:
        yt = yt.reshape(-1, 1)
    if yp.ndim == 1:
        yp = yp.reshape(-1, 1)
    if yt.shape[1] != yp.shape[1]:
        raise ValueError("y_true and y_pred have different number of output")
    n_out = yt.shape[1]
    if isinstance(multioutput, str):
        if multioutput not in ("raw_values", "uniform_average", "variance_weighted"):
            raise ValueError("Allowed 'multioutput' string values are ...")
    elif multioutput is not None:
        multioutput = mnp.array(multioutput)
        if n_out == 1:
            raise ValueError("Custom weights are useful only in multi-output cases.")
        if n_out != len(multioutput):
            raise ValueError("There must be equally many custom weights as outputs")
    return ("continuous" if n_out == 1 else "continuous-multioutput"), yt, yp, multioutput


def check_consistent_length(*arrs):
    ls = [len(_obj(a)) for a in arrs if a is not None]
    if len(set(ls)) > 1:
        raise ValueError("Found input variables with inconsistent numbers of samples: %r" % ls)


def _multi(output_errors, multioutput):
    if isinstance(multioutput, str):
        if multioutput == "raw_values":
            return output_errors
        multioutput = None
    return mnp.average(output_errors, weights=multioutput)


def mean_absolute_error(y_true, y_pred, sample_weight=None, multioutput="uniform_average"):
    _, yt, yp, mo = _check_reg_targets(y_true, y_pred, multioutput)
    check_consistent_length(yt, yp, sample_weight)
    return _multi(mnp.average(mnp.abs(yp - yt), weights=sample_weight, axis=0), mo)


def mean_squared_error(y_true, y_pred, sample_weight=None, multioutput="uniform_average", squared=True):
    _, yt, yp, mo = _check_reg_targets(y_true, y_pred, multioutput)
    check_consistent_length(yt, yp, sample_weight)
    oe = mnp.average((yt - yp) ** 2, axis=0, weights=sample_weight)
    if not squared:
        oe = mnp.sqrt(oe)
    return _multi(oe, mo)


def _weighted_percentile(array, sample_weight, percentile=50):
    """documented contract: weighted lower percentile ('inverted_cdf'), column-wise for 2-D input"""
    a = _obj(array)
    one_d = a.ndim == 1
    if one_d:
        a = a.reshape(-1, 1)
    wts = list(_obj(sample_weight).ravel())
    out = []
    for j in range(a.shape[1]):
        col = list(a[:, j])
        order = mnp._argsorted(col)
        tot = 0
        for w in wts:
            tot = tot + w
        cum = 0
        res = col[order[-1]]
        for i in order:
            cum = cum + wts[i]
            if cum >= tot * Fraction(percentile, 100):
                res = col[i]
                break
        out.append(res)
    return out[0] if one_d else mnp.array(out)


def median_absolute_error(y_true, y_pred, multioutput="uniform_average", sample_weight=None):
    _, yt, yp, mo = _check_reg_targets(y_true, y_pred, multioutput)
    if sample_weight is None:
        oe = mnp.median(mnp.abs(yp - yt), axis=0)
    else:
        oe = _weighted_percentile(mnp.abs(yp - yt), sample_weight=sample_weight)
    return _multi(oe, mo)


def gmean(a, axis=0):
    la = mnp.log(a)
    return mnp.exp(mnp.mean(la, axis=axis))
