"""Tiny model of the scikit-learn pieces PolynomialTrendForecaster uses (exact rational least squares).

X (the time axis) is concrete when the model is fitted, so the least-squares coefficients are *linear*
in the (symbolic) targets: beta = (X'X)^-1 X' y with rational matrix entries."""
from fractions import Fraction

from . import mnp
from .mnp import _obj, NDArr
from .symx import ModelGap, is_sym


def _solve(A, B):
    """Gauss-Jordan on Fractions; A (k x k) concrete, B list of k rows of (possibly symbolic) scalars"""
    k = len(A)
    A = [[Fraction(v) for v in row] for row in A]
    B = list(B)
    for c in range(k):
        piv = None
        for r in range(c, k):
            if A[r][c] != 0:
                piv = r
                break
        if piv is None:
            raise ModelGap("singular normal equations (rank-deficient design)")
        A[c], A[piv] = A[piv], A[c]
        B[c], B[piv] = B[piv], B[c]
        d = A[c][c]
        A[c] = [v / d for v in A[c]]
        B[c] = B[c] / d
        for r in range(k):
            if r != c and A[r][c] != 0:
                f = A[r][c]
                A[r] = [a - f * b for a, b in zip(A[r], A[c])]
                B[r] = B[r] - f * B[c]
    return B


class PolynomialFeatures:
    def __init__(self, degree=2, include_bias=True, interaction_only=False):
        self.degree = degree
        self.include_bias = include_bias

    def fit(self, X, y=None):
        return self

    def transform(self, X):
        a = _obj(X)
        if a.ndim != 2 or a.shape[1] != 1:
            raise ModelGap("PolynomialFeatures model: single feature only")
        lo = 0 if self.include_bias else 1
        rows = []
        for i in range(a.shape[0]):
            t = a[i, 0]
            row = []
            for d in range(lo, int(self.degree) + 1):
                p = 1
                for _ in range(d):
                    p = p * t
                row.append(p)
            rows.append(row)
        return mnp.array(rows) if rows else mnp.zeros((0, int(self.degree) + 1 - lo))

    def fit_transform(self, X, y=None):
        return self.fit(X).transform(X)


class LinearRegression:
    def __init__(self, fit_intercept=True, **kw):
        self.fit_intercept = fit_intercept

    def get_params(self, deep=True):
        return {"fit_intercept": self.fit_intercept}

    def fit(self, X, y):
        a = _obj(X)
        yv = list(_obj(y).ravel())
        rows = [list(a[i, :]) for i in range(a.shape[0])]
        if self.fit_intercept:
            rows = [[1] + r for r in rows]
        for r in rows:
            for v in r:
                if is_sym(v):
                    raise ModelGap("LinearRegression model: symbolic design matrix")
        k = len(rows[0])
        if len(rows) < k:
            raise ModelGap("LinearRegression model: under-determined system (minimum-norm solution not modelled)")
        A = [[sum(Fraction(r[i]) * Fraction(r[j]) for r in rows) for j in range(k)] for i in range(k)]
        B = []
        for i in range(k):
            s = 0
            for r, v in zip(rows, yv):
                s = s + Fraction(r[i]) * v
            B.append(s)
        beta = _solve(A, B)
        if self.fit_intercept:
            self.intercept_, self.coef_ = beta[0], mnp.array(beta[1:])
        else:
            self.intercept_, self.coef_ = 0, mnp.array(beta)
        return self

    def predict(self, X):
        a = _obj(X)
        coef = list(_obj(self.coef_))
        out = []
        for i in range(a.shape[0]):
            s = self.intercept_
            for c, v in zip(coef, a[i, :]):
                s = s + c * v
            out.append(s)
        return mnp.array(out)


class Pipeline:
    def __init__(self, steps):
        self.steps = steps

    def fit(self, X, y=None):
        for _, t in self.steps[:-1]:
            X = t.fit_transform(X, y)
        self.steps[-1][1].fit(X, y)
        return self

    def predict(self, X):
        for _, t in self.steps[:-1]:
            X = t.transform(X)
        return self.steps[-1][1].predict(X)


def make_pipeline(*steps):
    return Pipeline([(type(s).__name__.lower(), s) for s in steps])
