"""C05 -- reduction feeds regressors exactly the lagged windows, never the future."""
from ..runner import Harness
from ..hutil import L, S, fresh_ints, fresh_reals, increasing

RED = "sktime.forecasting.compose._reduce"


def rows3(a):
    """nested list of a 2-D or 3-D array (either world)"""
    return L(a)


class C05(Harness):
    pid = "C05"
    labels = (
        "reject-iff-window-does-not-fit",
        "n-estimators",
        "n-rows",
        "feature-is-lag",
        "exog-feature-is-lag",
        "target-is-h-ahead",
        "no-future-in-row",
        "forecast-is-regressor-output",
        "recursive-feedback",
        "index",
        "moving-cutoff-window",
        "dispatch",
        "unknown-rejected",
    )
    stubs = (
        "wrapped regressor := recording stub (sklearn BaseEstimator + RegressorMixin, or sktime BaseRegressor); predict = uninterpreted function of the fitted-estimator id and the feature row",
    )
    assumptions = ("no missing values in y / X", "one or two exogenous columns when exogenous data are used")
    outside = ("series longer than the stated n", "more than two exogenous columns", "in-sample horizons (NotImplemented by design)")

    def bounds(self, tier):
        q = tier == "quick"
        return {"n_max": 6 if q else 8, "fh_steps": [1, 2] if q else [1, 2, 3], "h_max": 4, "window_length": "1..n (symbolic)"}

    def cells(self, tier):
        b = self.bounds(tier)
        out = []
        for strat in ("direct", "multioutput", "recursive", "dirrec"):
            for sci in ("tabular-regressor", "time-series-regressor"):
                for exog in ((False, True) if strat != "dirrec" else (False,)):
                    for K in b["fh_steps"]:
                        if sci == "time-series-regressor" and (exog or K > 2):
                            continue
                        out.append({"name": "%s-%s-%s-k%d" % (strat, "tab" if sci[0] == "t" and sci[1] == "a" else "tsr", "exog" if exog else "noexog", K), "kind": "reduce", "strategy": strat, "scitype": sci, "exog": exog, "K": K, "N": b["n_max"], "cost": K * (2 if exog else 1)})
        # two exogenous columns (tabular and time-series regressors see [y lags, x1 lags, x2 lags])
        for strat in ("direct", "multioutput", "recursive"):
            for sci in ("tabular-regressor", "time-series-regressor"):
                out.append({"name": "%s-%s-exog2-k%d" % (strat, "tab" if sci[0] == "t" and sci[1] == "a" else "tsr", 2 if strat == "direct" else 1), "kind": "reduce", "strategy": strat, "scitype": sci, "exog": True, "nx": 2, "K": 2 if strat == "direct" else 1, "N": min(b["n_max"], 5), "cost": 3})
        # the horizon given as one absolute ForecastingHorizon object; a refitting update moves the cutoff, so the same
        # object means other relative steps at the second fit
        for strat in ("direct", "multioutput", "dirrec"):
            out.append({"name": "%s-tab-noexog-absfh-refit-k2" % strat, "kind": "reduce", "strategy": strat, "scitype": "tabular-regressor", "exog": False, "K": 2, "N": min(b["n_max"], 6), "absfh": True, "cost": 2})
        # integer-valued series (counts): the regressors' outputs are still arbitrary reals
        for strat in ("direct", "multioutput", "recursive", "dirrec"):
            out.append({"name": "%s-tab-noexog-int-k2" % strat, "kind": "reduce", "strategy": strat, "scitype": "tabular-regressor", "exog": False, "K": 2, "N": min(b["n_max"], 5), "int_series": True, "cost": 2})
        # call sequences on ONE instance: another window_length set between two fits; an update whose data revise
        # already stored time points (with and without refit)
        for strat in ("direct", "multioutput", "recursive", "dirrec"):
            for mode in ("rewindow", "revise", "revise-refit"):
                out.append({"name": "%s-tab-noexog-%s-k2" % (strat, mode), "kind": "reduce", "strategy": strat, "scitype": "tabular-regressor", "exog": False, "K": 2, "N": min(b["n_max"], 6), "seq": mode, "cost": 2})
        out.append({"name": "dispatch", "kind": "dispatch", "cost": 1})
        return out

    def inputs(self, ctx, cell):
        if cell["kind"] == "dispatch":
            return {"wl": ctx.fresh_int("wl")}
        N, K = cell["N"], cell["K"]
        n = ctx.fresh_int("n")
        ctx.assume((n >= 2) & (n <= N))
        nn = int(n)
        wl = ctx.fresh_int("wl")
        ctx.assume((wl >= 1) & (wl <= nn))
        hs = fresh_ints(ctx, "h", K)
        increasing(ctx, hs, lo=1)
        ctx.assume(hs[-1] <= 4)
        inp = {"n": nn, "wl": int(wl), "fh": [int(h) for h in hs], "s0": ctx.fresh_int("s0"), "y": fresh_ints(ctx, "y", nn) if cell.get("int_series") else fresh_reals(ctx, "y", nn)}
        if cell.get("absfh"):
            # n counts the series after the update; the first fit sees n - m points and must be feasible itself
            m = ctx.fresh_int("m")
            ctx.assume((m >= 1) & (m <= 2))
            inp["m"] = int(m)
            if inp["wl"] + inp["m"] + inp["fh"][-1] > nn - inp["m"] or cell["strategy"] == "recursive":
                ctx.assume(False)
            return inp
        if cell.get("seq"):
            need = 1 if cell["strategy"] == "recursive" else inp["fh"][-1]
            if cell["seq"] == "rewindow":
                wl2 = ctx.fresh_int("wl2")
                ctx.assume((wl2 >= 1) & (wl2 <= nn) & (wl2 != wl))
                inp["wl2"] = int(wl2)
                if inp["wl"] + need > nn or inp["wl2"] + need > nn:
                    ctx.assume(False)
            else:
                # the update carries r revised values for the newest r stored points, then a new ones
                r, a = ctx.fresh_int("r"), ctx.fresh_int("a")
                ctx.assume((r >= 1) & (r <= 2) & (a >= 0) & (a <= 1) & (r <= n))
                inp["r"], inp["a"] = int(r), int(a)
                inp["rev"] = fresh_reals(ctx, "rev", inp["r"] + inp["a"])
                if inp["wl"] + need > nn:
                    ctx.assume(False)
            return inp
        if cell["exog"]:
            nx = cell.get("nx", 1)
            inp["xs"] = [fresh_reals(ctx, "x%s" % ("" if j == 0 else j), nn) for j in range(nx)]
            inp["xfs"] = [fresh_reals(ctx, "xf%s" % ("" if j == 0 else j), inp["fh"][-1]) for j in range(nx)]
        else:
            # the recursive strategy does not need its horizon at fit: the moving-cutoff passes ask for other steps
            inp["mfh"] = [h + 1 for h in inp["fh"]] if cell["strategy"] == "recursive" else list(inp["fh"])
            inp["u"] = (fresh_ints if cell.get("int_series") else fresh_reals)(ctx, "u", inp["mfh"][-1] + 1)  # later observations for the moving-cutoff passes
        return inp

    # ------------------------------------------------------------------
    def _stub(self, W, cell, log):
        from sklearn.base import BaseEstimator, RegressorMixin

        np = W.np
        K = cell.get("K", 1)
        counter = [0]
        multi = cell.get("strategy") == "multioutput"
        if cell.get("scitype") == "time-series-regressor":
            Base = (W.load("sktime.regression.base").BaseRegressor,)
        else:
            Base = (RegressorMixin, BaseEstimator)

        class Stub(*Base):
            def __init__(self, tag=0):
                self.tag = tag

            def fit(self, X, y):
                counter[0] += 1
                self.id_ = counter[0]
                log.append({"id": self.id_, "X": rows3(X), "y": L(y)})
                self._is_fitted = True
                return self

            def predict(self, X):
                flat = []
                for v in rows3(X):
                    for u in v:
                        if isinstance(u, list):
                            flat.extend(u)
                        else:
                            flat.append(u)
                sig = "r" * len(flat) + ">r"
                if multi:
                    return np.array([[W.uf("reg%d_out%d_%d" % (self.id_, j, len(flat)), flat, sig) for j in range(K)]])
                return np.array([W.uf("reg%d_%d" % (self.id_, len(flat)), flat, sig)])

        return Stub

    def scenario(self, W, inp, cell):
        np, pd = W.np, W.pd
        self._curW = W
        red = W.load(RED)
        if cell["kind"] == "dispatch":
            return self._dispatch(W, red, inp)
        log = []
        Stub = self._stub(W, cell, log)
        n, s0 = inp["n"], inp["s0"]
        idx = pd.RangeIndex(s0, s0 + n)
        y = pd.Series(inp["y"], index=idx)
        X = pd.DataFrame({"x%d" % j: col for j, col in enumerate(inp["xs"])}, index=idx) if cell["exog"] else None
        reg0 = Stub()  # the regressor object the caller configures: a template, fitted only through clones
        f = red.make_reduction(reg0, strategy=cell["strategy"], window_length=inp["wl"], scitype=cell["scitype"])
        fh = np.array(inp["fh"])
        if cell.get("absfh"):
            FH = W.load("sktime.forecasting.base").ForecastingHorizon
            m = inp["m"]
            afh = FH(np.array([s0 + n - 1 + h for h in inp["fh"]]), is_relative=False)  # time points after the *updated* series
            f.fit(y.iloc[: n - m], fh=afh)
            del log[:]
            f.update(y.iloc[n - m :], update_params=True)
            fits = list(log)
            pred = f.predict()
            return {"rejected": False, "fits": fits, "index": L(pred.index), "values": L(pred.values), "cls": type(f).__name__}
        if cell.get("seq"):
            f.fit(y, fh=fh)
            first = list(log)
            if cell["seq"] == "rewindow":
                f.set_params(window_length=inp["wl2"])
                del log[:]
                f.fit(y, fh=fh)
            else:
                r, a = inp["r"], inp["a"]
                ynew = pd.Series(inp["rev"], index=pd.RangeIndex(s0 + n - r, s0 + n + a))
                if cell["seq"] == "revise-refit":
                    del log[:]
                f.update(ynew, update_params=cell["seq"] == "revise-refit")
            pred = f.predict()
            return {"rejected": False, "fits": list(log), "first": first, "index": L(pred.index), "values": L(pred.values), "cls": type(f).__name__, "cutoff": S(f.cutoff)}
        try:
            f.fit(y, X, fh=fh)
        except ValueError:
            return {"rejected": True}
        fits = list(log)
        # a second forecaster built from the same regressor object, fitted on another series: the first one is unaffected
        other = red.make_reduction(reg0, strategy=cell["strategy"], window_length=inp["wl"], scitype=cell["scitype"])
        y_other = pd.Series([v + 1 for v in reversed(list(inp["y"]))], index=idx)
        try:
            other.fit(y_other, X, fh=fh)
        except ValueError:
            pass
        del log[len(fits):]
        template_fitted = hasattr(reg0, "id_")
        if cell["exog"] and cell["strategy"] == "recursive":
            hK = inp["fh"][-1]
            Xf = pd.DataFrame({"x%d" % j: col for j, col in enumerate(inp["xfs"])}, index=pd.RangeIndex(s0 + n, s0 + n + hK))
            pred = f.predict(fh, X=Xf)
        else:
            pred = f.predict()
        out = {"rejected": False, "fits": fits, "index": L(pred.index), "values": L(pred.values), "cls": type(f).__name__, "template_fitted": template_fitted}
        if cell["strategy"] != "recursive":
            # a horizon other than the fitted one cannot be served by regressors trained for the fitted steps
            try:
                f.predict(np.array([h + 1 for h in inp["fh"]]))
                out["other_fh"] = "accepted"
            except ValueError:
                out["other_fh"] = "refused"
        if not cell["exog"]:
            # moving cutoff over later observations, twice over the same stretch (the second pass walks a cutoff that
            # lies before the end of the data the forecaster has memorised): regressors must see the window that ends
            # at the cutoff, never later observations
            sp = W.load("sktime.forecasting.model_selection._split")
            u = inp["u"]
            yb = pd.Series(u, index=pd.RangeIndex(s0 + n, s0 + n + len(u)))
            passes = []
            for _ in range(2):
                cv = sp.SlidingWindowSplitter(fh=np.array(inp["mfh"]), window_length=1, step_length=1, start_with_window=False)
                r = f.update_predict(yb, cv, update_params=False)
                if len(inp["mfh"]) == 1:
                    passes.append([{"cutoff": lab - inp["mfh"][0], "idx": [lab], "vals": [v]} for lab, v in zip(L(r.index), L(r.values))])
                elif hasattr(r, "columns"):
                    passes.append([{"cutoff": S(c), "idx": None, "vals": L(r.iloc[:, j].values), "rows": L(r.index)} for j, c in enumerate(r.columns)])
                else:
                    passes.append([{"cutoff": None, "idx": L(r.index), "vals": L(r.values)}])
            out["passes"] = passes
            out["cutoff_after"] = S(f.cutoff)
            out["n_fits_after"] = len(log)
        return out

    def _dispatch(self, W, red, inp):
        from sklearn.base import BaseEstimator, RegressorMixin

        BR = W.load("sktime.regression.base").BaseRegressor

        class Tab(RegressorMixin, BaseEstimator):
            pass

        class Tsr(BR):
            pass

        class Neither(BaseEstimator):
            pass

        class Both(RegressorMixin, BR):
            """a time-series regressor that also carries scikit-learn's mixin (as sktime's own forest regressor does)"""

        out = {}
        for strat in ("direct", "recursive", "multioutput", "dirrec"):
            a = red.make_reduction(Tab(), strategy=strat, window_length=inp["wl"])
            b = red.make_reduction(Tsr(), strategy=strat, window_length=inp["wl"])
            c = red.make_reduction(Tab(), strategy=strat, window_length=inp["wl"], scitype="time-series-regressor")
            out[strat] = [type(a).__name__, type(b).__name__, type(c).__name__, S(a.window_length), a.strategy, a._estimator_scitype, b._estimator_scitype]

        def rej(f):
            try:
                f()
            except ValueError:
                return True
            return False

        out["both"] = [type(red.make_reduction(Both(), strategy=st_, window_length=inp["wl"])).__name__ for st_ in ("direct", "recursive", "multioutput", "dirrec")]
        out["bad_strategy"] = rej(lambda: red.make_reduction(Tab(), strategy="iterated"))
        out["bad_scitype"] = rej(lambda: red.make_reduction(Tab(), scitype="classifier"))
        out["bad_infer"] = rej(lambda: red.make_reduction(Neither()))
        return out

    # ------------------------------------------------------------------
    def _uf(self, name, args):
        return self._curW.uf(name, args, "r" * len(args) + ">r")

    def oracle(self, P, inp, out, cell):
        if cell["kind"] == "dispatch":
            names = {"direct": "Direct", "recursive": "Recursive", "multioutput": "Multioutput", "dirrec": "DirRec"}
            for strat, nm in names.items():
                a, b, c, wl, st, sa, sb = out[strat]
                P.check("dispatch", a == nm + "TabularRegressionForecaster" and b == nm + "TimeSeriesRegressionForecaster" and c == b and st == strat and sa == "tabular-regressor" and sb == "time-series-regressor")
                P.eq("dispatch", wl, inp["wl"])
            P.check("dispatch", out["both"] == [names[st_] + "TimeSeriesRegressionForecaster" for st_ in ("direct", "recursive", "multioutput", "dirrec")], {"both_bases": out["both"]})
            P.check("unknown-rejected", out["bad_strategy"] and out["bad_scitype"] and out["bad_infer"])
            return
        if cell.get("seq") and "wl_eff" not in inp:
            # the state the last fit / the forecast must reflect: the newly set window length, resp. the stored series
            # with the revised values in place of the superseded ones
            eff = dict(inp, wl_eff=True)
            if cell["seq"] == "rewindow":
                eff["wl"] = inp["wl2"]
            else:
                eff["y"] = list(inp["y"][: inp["n"] - inp["r"]]) + list(inp["rev"])
                eff["n"] = inp["n"] + inp["a"]
            if cell["seq"] == "revise":
                # no refit: the regressors stay the ones trained on the original series; only the last window moves
                self.oracle(P, dict(inp, wl_eff=True), dict(out, index=None), cell)
                P.eq("index", out["cutoff"], inp["s0"] + eff["n"] - 1, {"what": "cutoff after update"})
                P.check("index", len(out["index"]) == len(inp["fh"]) and len(out["values"]) == len(inp["fh"]))
                if len(out["index"]) == len(inp["fh"]):
                    for lab, h in zip(out["index"], inp["fh"]):
                        P.eq("index", lab, inp["s0"] + eff["n"] - 1 + h)
                    exp = self._expected(cell["strategy"], inp["fh"], inp["wl"], eff["y"][eff["n"] - inp["wl"] :])
                    lab_ = "forecast-is-regressor-output" if cell["strategy"] in ("direct", "multioutput") else "recursive-feedback"
                    for v, e in zip(out["values"], exp):
                        P.eq(lab_, v, e, {"what": "window after a revising update"})
                return
            return self.oracle(P, eff, out, cell)
        n, wl, fh, y, s0 = inp["n"], inp["wl"], inp["fh"], inp["y"], inp["s0"]
        K, hK = len(fh), fh[-1]
        strat = cell["strategy"]
        exog = cell["exog"]
        xcols = inp.get("xs") or []
        nx = len(xcols)
        tsr = cell["scitype"] == "time-series-regressor"
        need = 1 if strat == "recursive" else hK
        fits_ok = wl + need <= n
        if out["rejected"]:
            P.check("reject-iff-window-does-not-fit", not fits_ok)
            return
        P.check("reject-iff-window-does-not-fit", fits_ok)
        fits = out["fits"]
        nest = K if strat in ("direct", "dirrec") else 1
        P.check("n-estimators", len(fits) == nest)
        if "template_fitted" in out:
            P.check("n-estimators", not out["template_fitted"], {"what": "the regressor object passed by the caller was fitted in place"})
        if "other_fh" in out:
            P.check("forecast-is-regressor-output", out["other_fh"] == "refused", {"what": "a horizon other than the fitted one was served", "strategy": strat})
        if len(fits) != nest:
            return
        rows = n - wl - need + 1

        def feat_row(Xrow):
            """-> (list of y-lag values, list of x-lag values) of one training row"""
            if tsr:
                ys = list(Xrow[0])
                xs = [list(Xrow[1 + j]) for j in range(nx)] if len(Xrow) == 1 + nx else None
            else:
                ys = list(Xrow[:wl]) if not isinstance(Xrow[0], list) else list(Xrow[0])
                xs = [list(Xrow[wl * (1 + j) : wl * (2 + j)]) for j in range(nx)] if len(Xrow) == wl * (1 + nx) or strat == "dirrec" else None
                if strat == "dirrec":
                    ys = list(Xrow)
            return ys, xs

        for e, fit in enumerate(fits):
            X, yy = fit["X"], fit["y"]
            P.check("n-rows", len(X) == rows and len(yy) == rows)
            if len(X) != rows or len(yy) != rows:
                continue
            for r in range(rows):
                ys, xs = feat_row(X[r])
                extra = e if strat == "dirrec" else 0
                P.check("n-rows", len(ys) == wl + extra and xs is not None and all(len(c) == wl for c in xs))
                if xs is None:
                    continue
                if len(ys) != wl + extra:
                    continue
                for j in range(wl):
                    P.eq("feature-is-lag", ys[j], y[r + j])
                for j in range(extra):  # dirrec: the true values of the earlier requested steps are the newest lags
                    P.eq("feature-is-lag", ys[wl + j], y[r + wl + fh[j] - 1])
                for cj, col in enumerate(xs):
                    for j, v in enumerate(col):
                        P.eq("exog-feature-is-lag", v, xcols[cj][r + j], {"column": cj})
                # targets
                if strat in ("direct", "dirrec"):
                    tpos = [r + wl + fh[e] - 1]
                    tv = [yy[r]]
                elif strat == "multioutput":
                    tpos = [r + wl + h - 1 for h in fh]
                    tv = list(yy[r]) if isinstance(yy[r], list) else [yy[r]]
                else:
                    tpos = [r + wl]
                    tv = [yy[r]]
                P.check("target-is-h-ahead", len(tv) == len(tpos))
                for v, p in zip(tv, tpos):
                    P.eq("target-is-h-ahead", v, y[p])
                # every feature position precedes every target position of this row
                maxfeat = r + wl - 1 if strat != "dirrec" or e == 0 else r + wl + fh[e - 1] - 1
                P.check("no-future-in-row", maxfeat < min(tpos))
        # ---- prediction
        c = s0 + n - 1
        if out["index"] is None:
            return  # (training rows only)
        P.check("index", len(out["index"]) == K and len(out["values"]) == K)
        if len(out["index"]) != K:
            return
        for lab, h in zip(out["index"], fh):
            P.eq("index", lab, c + h)
        win = list(y[n - wl :])
        xwin = [v for col in xcols for v in col[n - wl :]]
        vals = out["values"]
        nf = lambda k: (wl * (1 + nx)) + k  # noqa
        if "passes" in out:
            self._moving(P, inp, out, cell)
        if strat == "direct":
            for k in range(K):
                P.eq("forecast-is-regressor-output", vals[k], self._uf("reg%d_%d" % (fits[k]["id"], nf(0)), win + xwin))
        elif strat == "multioutput":
            for k in range(K):
                P.eq("forecast-is-regressor-output", vals[k], self._uf("reg%d_out%d_%d" % (fits[0]["id"], k, nf(0)), win + xwin))
        elif strat == "recursive":
            seq = list(win)
            xs_all = [list(col[n - wl :]) + list(fut) for col, fut in zip(xcols, inp.get("xfs") or [])]
            outs = []
            for i in range(hK):
                feats = seq[i : i + wl] + [v for col in xs_all for v in col[i : i + wl]]
                o = self._uf("reg%d_%d" % (fits[0]["id"], nf(0)), feats)
                outs.append(o)
                seq.append(o)
            for k, h in enumerate(fh):
                P.eq("recursive-feedback", vals[k], outs[h - 1])
        else:  # dirrec
            seq = list(win)
            for k in range(K):
                o = self._uf("reg%d_%d" % (fits[k]["id"], wl + k), seq)
                P.eq("recursive-feedback", vals[k], o)
                seq.append(o)

    def _expected(self, strat, fh, wl, win):
        """forecasts (no exogenous data) when the last window is `win`"""
        K, hK = len(fh), fh[-1]
        if strat == "direct":
            return [self._uf("reg%d_%d" % (k + 1, wl), win) for k in range(K)]
        if strat == "multioutput":
            return [self._uf("reg1_out%d_%d" % (k, wl), win) for k in range(K)]
        if strat == "recursive":
            seq, outs = list(win), []
            for i in range(hK):
                o = self._uf("reg1_%d" % wl, seq[i : i + wl])
                outs.append(o)
                seq.append(o)
            return [outs[h - 1] for h in fh]
        seq, res = list(win), []
        for k in range(K):
            o = self._uf("reg%d_%d" % (k + 1, wl + k), seq)
            res.append(o)
            seq.append(o)
        return res

    def _moving(self, P, inp, out, cell):
        n, wl, fh, s0 = inp["n"], inp["wl"], inp["mfh"], inp["s0"]
        data = list(inp["y"]) + list(inp["u"])
        K = len(fh)
        p1, p2 = out["passes"]
        P.check("moving-cutoff-window", len(p1) >= 1 and len(p1) == len(p2), {"n1": len(p1), "n2": len(p2)})
        P.check("moving-cutoff-window", out["n_fits_after"] == len(out["fits"]), {"what": "update_params=False refitted"})
        P.eq("moving-cutoff-window", out["cutoff_after"], s0 + n - 1, {"what": "cutoff restored"})
        for pi, ps in enumerate((p1, p2)):
            for i, rec in enumerate(ps):
                pos = n - 1 + i  # the splitter starts with an empty window: the first moving cutoff is the fitted one
                if rec["cutoff"] is not None:
                    P.eq("moving-cutoff-window", rec["cutoff"], s0 + pos, {"pass": pi, "what": "cutoff"})
                exp = self._expected(cell["strategy"], fh, wl, data[pos + 1 - wl : pos + 1])
                isn = lambda v: v is None or (isinstance(v, float) and v != v)  # noqa: E731
                if rec.get("rows") is not None:
                    # frame columns are NaN off their own labels; the frame's rows are in order of first appearance
                    pairs = sorted(((int(lab - s0), v) for lab, v in zip(rec["rows"], rec["vals"]) if not isn(v)), key=lambda t: t[0])
                    got = [v for _, v in pairs]
                    # ... and the values of a cutoff's column sit on the time points cutoff + step
                    P.check("moving-cutoff-window", [p_ for p_, _ in pairs] == [pos + h for h in fh], {"pass": pi, "cutoff_pos": pos, "what": "row labels of the column's forecasts", "labels": [p_ for p_, _ in pairs]})
                else:
                    got = [v for v in rec["vals"] if not isn(v)]
                P.check("moving-cutoff-window", len(got) == K, {"pass": pi})
                for v, e in zip(got, exp):
                    P.eq("moving-cutoff-window", v, e, {"pass": pi, "cutoff_pos": pos})

    def signature(self, label, inp, cell):
        return "%s/%s" % (cell["name"].rsplit("-k", 1)[0], label)


HARNESS = C05()
