"""C15 -- panel data container conversions are lossless and mutually consistent."""
import itertools

from ..runner import Harness
from ..hutil import S
from .. import worlds

DP = "sktime.utils.data_processing"
REPS = ["nested", "nested_np", "3d", "mi", "long", "2d"]


class C15(Harness):
    pid = "C15"
    labels = ("cell-preserved", "shape-preserved", "column-names-preserved", "paths-agree-with-direct", "nestedness-predicates", "check_X-coercions")
    stubs = ("cells are opaque symbolic tokens (z3 reals) stored in object arrays / Series; the conversion code runs on the real pandas / numpy (with the iteritems / applymap shims)",)
    assumptions = ("equal-length series", "honest note: there are no path conditions here -- the solver certifies term equality of every output cell with the input token; sizes are enumerated")
    outside = ("unequal-length panels", "panels larger than the stated sizes", "non-default time indices inside cells")
    max_validate_quick = 40

    def bounds(self, tier):
        q = tier == "quick"
        return {"instances": [1, 2] if q else [1, 2, 3], "columns": [1, 2] if q else [1, 2, 3], "timepoints": [2, 3] if q else [2, 3, 4], "path_length": "<= 3", "column_names": ["default var_i", "custom"]}

    def cells(self, tier):
        b = self.bounds(tier)
        out = []
        for ni in b["instances"]:
            for nc in b["columns"]:
                for nt in b["timepoints"]:
                    out.append({"name": "panel-%dx%dx%d" % (ni, nc, nt), "kind": "panel", "ni": ni, "nc": nc, "nt": nt, "cost": ni * nc * nt})
        return out

    def make_world(self, kind, cell):
        W = self.__dict__.get("_W")
        if W is None:
            W = worlds.make_conc_world()
            import pandas as pd

            if not hasattr(pd.DataFrame, "applymap"):
                pd.DataFrame.applymap = pd.DataFrame.map
            self._W = W
        return W

    def inputs(self, ctx, cell):
        ni, nc, nt = cell["ni"], cell["nc"], cell["nt"]
        int_cells = bool(ctx.fresh_bool("int_cells"))  # integer-valued panel (arbitrary magnitude) instead of reals
        mk = ctx.fresh_int if int_cells else ctx.fresh_real
        toks = [[[mk("x_%d_%d_%d" % (i, j, t)) for t in range(nt)] for j in range(nc)] for i in range(ni)]
        inp = {"x": toks, "custom_names": bool(ctx.fresh_bool("custom_names")), "int_cells": int_cells}
        if nc >= 2 and not int_cells:
            # the real-valued part of the mixed-dtype panel: one symbolic value in [-2, 2] (a cast to the integer dtype of
            # the first variable would have to enumerate its truncations), the others fixed fractions
            from fractions import Fraction

            xm = ctx.fresh_real("xm")
            ctx.assume((xm >= -2) & (xm <= 2))
            inp["xm"] = [[[xm if (i, j, t) == (0, 1, 0) else Fraction(2 * (i + j + t) + 1, 4) for t in range(nt)] for j in range(nc)] for i in range(ni)]
        return inp

    # ------------------------------------------------------------------
    def scenario(self, W, inp, cell):
        import numpy as np
        import pandas as pd
        import warnings

        warnings.simplefilter("ignore")
        dp = W.load(DP)
        vp = W.load("sktime.utils.validation.panel")
        ni, nc, nt = cell["ni"], cell["nc"], cell["nt"]
        x = inp["x"]
        names = ["zb", "ya", "xc"][:nc] if inp["custom_names"] else ["var_%d" % j for j in range(nc)]  # custom names are NOT in lexicographic order
        sym = not isinstance(x[0][0][0], (float, int))
        cdt = "int64" if inp.get("int_cells") else float  # dtype of the concrete replays

        def arr3():
            a = np.empty((ni, nc, nt), dtype=object if sym else cdt)
            for i in range(ni):
                for j in range(nc):
                    for t in range(nt):
                        a[i, j, t] = x[i][j][t]
            return a

        def nested(as_np=False):
            df = pd.DataFrame()
            for j, nm in enumerate(names):
                col = []
                for i in range(ni):
                    v = np.empty(nt, dtype=object if sym else cdt)
                    for t in range(nt):
                        v[t] = x[i][j][t]
                    col.append(v if as_np else pd.Series(v))
                df[nm] = col
            return df

        conv = {
            ("nested", "3d"): lambda X: dp.from_nested_to_3d_numpy(X),
            ("nested_np", "3d"): lambda X: dp.from_nested_to_3d_numpy(X),
            ("3d", "nested"): lambda X: dp.from_3d_numpy_to_nested(X, column_names=names),
            ("3d", "nested_np"): lambda X: dp.from_3d_numpy_to_nested(X, column_names=names, cells_as_numpy=True),
            ("3d", "mi"): lambda X: dp.from_3d_numpy_to_multi_index(X, instance_index="instance", time_index="timepoints", column_names=names),
            ("mi", "3d"): lambda X: dp.from_multi_index_to_3d_numpy(X, instance_index="instance", time_index="timepoints"),
            ("nested", "mi"): lambda X: dp.from_nested_to_multi_index(X, instance_index="instance", time_index="timepoints"),
            ("mi", "nested"): lambda X: dp.from_multi_index_to_nested(X, instance_index="instance"),
            ("mi", "nested_np"): lambda X: dp.from_multi_index_to_nested(X, instance_index="instance", cells_as_numpy=True),
            ("nested", "long"): lambda X: dp.from_nested_to_long(X, instance_column_name="case_id", time_column_name="reading_id", dimension_column_name="dim_id"),
            ("long", "nested"): lambda X: dp.from_long_to_nested(X, column_names=sorted(names)),
            ("nested", "2d"): lambda X: dp.from_nested_to_2d_array(X),
            ("nested_np", "2d"): lambda X: dp.from_nested_to_2d_array(X),
            ("3d", "2d"): lambda X: dp.from_3d_numpy_to_2d_array(X),
        }

        def canon(rep, X):
            """-> (values[i][j][t], column names or None)"""
            if rep in ("nested", "nested_np"):
                cellv = lambda c: [S(v) for v in list(c)] if hasattr(c, "__len__") else ["<scalar cell %r>" % (c,)]  # noqa: E731
                return [[cellv(X.iloc[i, j]) for j in range(X.shape[1])] for i in range(X.shape[0])], [str(c) for c in X.columns]
            if rep == "3d":
                return [[[S(X[i, j, t]) for t in range(X.shape[2])] for j in range(X.shape[1])] for i in range(X.shape[0])], None
            if rep == "mi":
                n_i = len(X.index.get_level_values(0).unique())
                n_t = X.shape[0] // n_i
                return [[[S(X.iloc[i * n_t + t, j]) for t in range(n_t)] for j in range(X.shape[1])] for i in range(n_i)], [str(c) for c in X.columns]
            if rep == "long":
                vals = {}
                for r in range(X.shape[0]):
                    vals[(int(X["case_id"].iloc[r]), str(X["dim_id"].iloc[r]), int(X["reading_id"].iloc[r]))] = S(X["value"].iloc[r])
                cols = sorted({k[1] for k in vals})
                n_i = len({k[0] for k in vals})
                n_t = len({k[2] for k in vals})
                return [[[vals[(i, c, t)] for t in range(n_t)] for c in cols] for i in range(n_i)], cols
            if rep == "2d":
                A = X.to_numpy() if hasattr(X, "to_numpy") else X
                if np.ndim(A) != 2:
                    return [["<%d-d table of shape %s>" % (np.ndim(A), list(np.shape(A)))]], None
                return [[[S(A[i, j * nt + t]) for t in range(nt)] for j in range(A.shape[1] // nt)] for i in range(A.shape[0])], ([str(c) for c in X.columns] if hasattr(X, "columns") else None)
            raise AssertionError(rep)

        # the same 3-D panel also in Fortran memory order (what a transposed / column-major user array looks like)
        start = {"nested": nested(), "nested_np": nested(True), "3d": arr3(), "3d[F-order]": np.asfortranarray(arr3())}
        rep_of = lambda lab: "3d" if lab.startswith("3d") else ("mi" if lab.startswith("mi") else lab)  # noqa: E731
        if ni >= 2:
            # a multi-index panel whose instance labels are not ascending (a shuffled / sub-selected panel): the
            # instance order is the order of appearance
            labs = [10 - 3 * i for i in range(ni)]
            mi0 = dp.from_3d_numpy_to_multi_index(arr3(), instance_index="instance", time_index="timepoints", column_names=names)
            mi0.index = pd.MultiIndex.from_arrays([[labs[i] for i in range(ni) for _ in range(nt)], [t for _ in range(ni) for t in range(nt)]], names=["instance", "timepoints"])
            start["mi[descending-labels]"] = mi0
        out = {"paths": {}}
        for s_rep, X0 in start.items():
            # all conversion paths of length <= 3
            frontier = [((s_rep,), X0)]
            for _ in range(3):
                nxt = []
                for path, X in frontier:
                    for (a, b), f in conv.items():
                        if a != rep_of(path[-1]) or b in path:
                            continue
                        try:
                            Y = f(X)
                        except Exception as e:  # noqa
                            out["paths"]["->".join(path + (b,))] = {"error": "%s: %s" % (type(e).__name__, str(e)[:80])}
                            continue
                        vals, cols = canon(b, Y)
                        out["paths"]["->".join(path + (b,))] = {"vals": vals, "cols": cols}
                        if b != "2d":
                            nxt.append((path + (b,), Y))
                frontier = nxt
        n0 = nested()
        out["pred"] = {
            "nested": bool(dp.is_nested_dataframe(n0)),
            "nested_np": bool(dp.is_nested_dataframe(nested(True))),
            "flat": bool(dp.is_nested_dataframe(pd.DataFrame({"a": [1.0, 2.0]}))),
            "array": bool(dp.is_nested_dataframe(arr3())),
            "cols": [bool(v) for v in dp.are_columns_nested(n0)],
            "mixed": [bool(v) for v in dp.are_columns_nested(n0.assign(flat=[1.0] * ni))],
        }
        # primitive cells that are not numbers (a missing value coded as None, time stamps) are not series-valued
        prim = pd.DataFrame({"a": pd.Series([1.0, None], dtype=object), "t": pd.to_datetime(["2020-01-01", "2020-01-02"])})
        out["pred"]["primitives"] = [bool(v) for v in dp.are_columns_nested(prim)] + [bool(dp.is_nested_dataframe(prim))]
        # a nested column whose FIRST cell is a scalar placeholder is still nested (every cell counts)
        import numpy as _np

        ragged = pd.DataFrame({"a": [_np.nan, pd.Series([1.0, 2.0]), pd.Series([3.0, 4.0])], "b": [1.0, 2.0, 3.0]})
        out["pred"]["scalar_first"] = [bool(v) for v in dp.are_columns_nested(ragged)] + [bool(dp.is_nested_dataframe(ragged))]
        ragged2 = pd.DataFrame({"a": [pd.Series([1.0, 2.0]), _np.nan, _np.nan]})
        out["pred"]["scalar_later"] = [bool(v) for v in dp.are_columns_nested(ragged2)] + [bool(dp.is_nested_dataframe(ragged2))]
        cx = {}
        cx["nested->numpy"] = canon("3d", vp.check_X(n0, coerce_to_numpy=True))[0]
        cx["3d->pandas"] = canon("nested", vp.check_X(arr3(), coerce_to_pandas=True))[0]
        cx["3d->numpy"] = canon("3d", vp.check_X(arr3(), coerce_to_numpy=True))[0]
        cx["nested->pandas"] = canon("nested", vp.check_X(n0, coerce_to_pandas=True))[0]
        cx["nested_np->pandas"] = canon("nested", vp.check_X(nested(True), coerce_to_pandas=True))[0]
        out["check_X"] = cx
        out["check_X_cols"] = {"nested->pandas": [str(c) for c in vp.check_X(n0, coerce_to_pandas=True).columns], "nested_np->pandas": [str(c) for c in vp.check_X(nested(True), coerce_to_pandas=True).columns]}
        out["names"] = names
        # Series cells whose own time labels differ between instances (windows cut from one recording): values go by position
        offs = pd.DataFrame()
        for j, nm in enumerate(names):
            col = []
            for i in range(ni):
                v = np.empty(nt, dtype=object if sym else cdt)
                for t in range(nt):
                    v[t] = x[i][j][t]
                col.append(pd.Series(v, index=range(i, i + nt)))
            offs[nm] = col
        out["offset_labels"] = {"2d": canon("2d", dp.from_nested_to_2d_array(offs))[0], "3d": canon("3d", dp.from_nested_to_3d_numpy(offs))[0]}
        # ... and Series cells whose integer time labels run backwards: the order of the observations is the order in the cell
        desc = pd.DataFrame()
        for j, nm in enumerate(names):
            col = []
            for i in range(ni):
                v = np.empty(nt, dtype=object if sym else cdt)
                for t in range(nt):
                    v[t] = x[i][j][t]
                col.append(pd.Series(v, index=list(range(nt - 1, -1, -1))))
            desc[nm] = col
        try:
            mi_d = dp.from_nested_to_multi_index(desc, instance_index="instance", time_index="timepoints")
            out["descending_labels"] = {"mi": canon("mi", mi_d)[0], "3d": canon("3d", dp.from_nested_to_3d_numpy(desc))[0]}
        except Exception as e:  # noqa
            if type(e).__module__.startswith("vf."):
                raise
            out["descending_labels"] = {"error": "%s: %s" % (type(e).__name__, str(e)[:60])}
        # column names handed over as a pandas Index (the natural round trip: column_names=X.columns)
        try:
            ni_ = dp.from_3d_numpy_to_nested(arr3(), column_names=pd.Index(names))
            out["names_as_index"] = {"vals": canon("nested", ni_)[0], "cols": [str(c) for c in ni_.columns]}
        except Exception as e:  # noqa
            if type(e).__module__.startswith("vf."):
                raise
            out["names_as_index"] = {"error": "%s: %s" % (type(e).__name__, str(e)[:60])}
        if nc >= 2:
            # a long table whose integer variable identifiers do not sort alike as numbers and as text (2, 10, 100),
            # rows in shuffled order: variables come back ordered by identifier
            ids = [2, 10, 100][:nc]
            rows = [(i, ids[j], t, x[i][j][t]) for j in reversed(range(nc)) for i in range(ni) for t in range(nt)]
            lt = pd.DataFrame({"case_id": [r[0] for r in rows], "dim_id": [r[1] for r in rows], "reading_id": [r[2] for r in rows]})
            lt["value"] = pd.Series([r[3] for r in rows], dtype=object if sym else cdt)
            ln = dp.from_long_to_nested(lt)
            out["long_int_ids"] = {"vals": canon("nested", ln)[0], "cols": [str(c) for c in ln.columns]}
            # a panel whose first variable is integer-typed (counts) and whose other variables are real-valued
        if nc >= 2 and inp.get("xm"):
            counts = [[3 * i + t + 1 for t in range(nt)] for i in range(ni)]
            xm = inp["xm"]
            mixed = pd.DataFrame()
            mixed["count"] = [pd.Series(np.array(counts[i], dtype="int64")) for i in range(ni)]
            for j in range(1, nc):
                col = []
                for i in range(ni):
                    v = np.empty(nt, dtype=object if sym else float)
                    for t in range(nt):
                        v[t] = xm[i][j][t]
                    col.append(pd.Series(v))
                mixed[names[j]] = col
            out["mixed_dtype"] = {"counts": counts, "3d": canon("3d", dp.from_nested_to_3d_numpy(mixed))[0], "check_X": canon("3d", vp.check_X(mixed, coerce_to_numpy=True))[0]}
        if ni >= 2:
            # a multi-index panel that is a row subset (by instance) of a larger one: pandas keeps the unused labels in
            # index.levels; the conversion goes by the rows that are there
            big = dp.from_3d_numpy_to_multi_index(np.concatenate([arr3(), arr3()], axis=0), instance_index="instance", time_index="timepoints", column_names=names)
            sub = big.loc[list(range(ni))]
            out["mi_subset"] = {"3d": canon("3d", dp.from_multi_index_to_3d_numpy(sub, instance_index="instance", time_index="timepoints"))[0], "n_levels": int(len(sub.index.levels[0]))}
        # a nested frame whose instances are keyed by a two-level row index (subject, trial) is still nested
        n_h = nested()
        n_h.index = pd.MultiIndex.from_arrays([[i // 2 for i in range(ni)], [i % 2 for i in range(ni)]], names=["subject", "trial"])
        out["pred"]["hier_rows"] = [bool(dp.is_nested_dataframe(n_h))] + [bool(v) for v in dp.are_columns_nested(n_h)]
        try:
            out["hier_3d"] = canon("3d", dp.from_nested_to_3d_numpy(n_h))[0]
        except ValueError as e:
            out["hier_3d"] = {"error": str(e)[:60]}
        if nc == 1:
            # table -> nested with the caller's own instance labels (a fold of a larger panel, ids ...)
            labs = [10 - 3 * i for i in range(ni)]
            tab = dp.from_nested_to_2d_array(n0)
            back = dp.from_2d_array_to_nested(tab, index=pd.Index(labs), columns=names)
            out["table_back"] = {"vals": canon("nested", back)[0], "index": [int(v) for v in back.index], "cols": [str(c) for c in back.columns], "labels": labs}
        return out

    def oracle(self, P, inp, out, cell):
        x = inp["x"]
        ni, nc, nt = cell["ni"], cell["nc"], cell["nt"]
        names = out["names"]

        def same(vals, label, order=None, detail=None):
            ok_shape = len(vals) == ni and all(len(r) == nc for r in vals) and all(len(c) == nt for r in vals for c in r)
            P.check("shape-preserved", ok_shape, detail)
            if not ok_shape:
                return
            for i in range(ni):
                for j in range(nc):
                    jj = order[j] if order else j
                    for t in range(nt):
                        P.eq(label, vals[i][j][t], x[i][jj][t], detail)

        for path, r in out["paths"].items():
            d = {"path": path}
            if "error" in r:
                P.check("paths-agree-with-direct", False, {"path": path, "error": r["error"]})
                continue
            reps = path.split("->")
            # the long table orders variables by their identifier
            order = sorted(range(nc), key=lambda j: names[j]) if "long" in reps else None
            same(r["vals"], "cell-preserved" if len(reps) == 2 else "paths-agree-with-direct", order, d)
            if r["cols"] is not None and reps[-1] != "2d":
                carried = all(rep in ("nested", "nested_np", "mi", "long") for rep in reps[1:]) or True
                want = sorted(names) if "long" in reps else names
                P.check("column-names-preserved", r["cols"] == want, {"path": path, "cols": r["cols"], "want": want})
        p = out["pred"]
        P.check("nestedness-predicates", p["nested"] and p["nested_np"] and not p["flat"] and not p["array"] and p["cols"] == [True] * nc and p["mixed"] == [True] * nc + [False])
        P.check("nestedness-predicates", p["scalar_first"] == [True, False, True] and p["scalar_later"] == [True, True], {"scalar_first": p["scalar_first"], "scalar_later": p["scalar_later"]})
        P.check("nestedness-predicates", p["primitives"] == [False, False, False], {"primitives": p["primitives"]})
        P.check("nestedness-predicates", p["hier_rows"] == [True] * (1 + nc), {"hierarchical_row_index": p["hier_rows"]})
        if isinstance(out["hier_3d"], dict):
            P.check("cell-preserved", False, {"path": "nested(two-level row index)->3d", "error": out["hier_3d"]["error"]})
        else:
            same(out["hier_3d"], "cell-preserved", None, {"path": "nested(two-level row index)->3d"})
        if "mi_subset" in out:
            same(out["mi_subset"]["3d"], "cell-preserved", None, {"path": "mi(row subset of a larger panel)->3d"})
        for k, vals in out["check_X"].items():
            same(vals, "check_X-coercions", None, {"coercion": k})
        for k, cols in out["check_X_cols"].items():
            P.check("column-names-preserved", cols == names, {"coercion": k, "cols": cols, "want": names})
        for rep_, vals_ in out.get("offset_labels", {}).items():
            same(vals_, "cell-preserved", None, {"path": "nested(per-instance time labels)->%s" % rep_})
        if "long_int_ids" in out:
            li = out["long_int_ids"]
            same(li["vals"], "cell-preserved", None, {"path": "long(integer ids 2,10,..)->nested"})
            P.check("column-names-preserved", li["cols"] == ["var_%d" % j for j in range(nc)], {"path": "long(integer ids 2,10,..)->nested", "cols": li["cols"]})
        if "mixed_dtype" in out and not inp.get("int_cells"):
            md = out["mixed_dtype"]
            for key in ("3d", "check_X"):
                vals = md[key]
                d = {"path": "nested(int first variable, real others)->%s" % key}
                ok_shape = len(vals) == ni and all(len(r) == nc for r in vals) and all(len(c) == nt for r in vals for c in r)
                P.check("shape-preserved", ok_shape, d)
                if ok_shape:
                    for i in range(ni):
                        for t in range(nt):
                            P.eq("cell-preserved", vals[i][0][t], md["counts"][i][t], d)
                            for j in range(1, nc):
                                P.eq("cell-preserved", vals[i][j][t], inp["xm"][i][j][t], d)
        for key, what in (("descending_labels", "nested(time labels running backwards)"), ("names_as_index", "3d->nested(column_names=Index)")):
            r_ = out.get(key)
            if r_ is None:
                continue
            if "error" in r_:
                P.check("cell-preserved", False, {"path": what, "error": r_["error"]})
                continue
            for sub, vals_ in r_.items():
                if sub == "cols":
                    P.check("column-names-preserved", vals_ == names, {"path": what, "cols": vals_})
                else:
                    same(vals_, "cell-preserved", None, {"path": "%s->%s" % (what, sub)})
        if "table_back" in out:
            tb = out["table_back"]
            same(tb["vals"], "cell-preserved", None, {"path": "nested->2d->nested(index=labels)"})
            P.check("shape-preserved", tb["index"] == tb["labels"], {"path": "nested->2d->nested(index=labels)", "index": tb["index"]})
            P.check("column-names-preserved", tb["cols"] == names, {"path": "nested->2d->nested(index=labels)"})

    def signature(self, label, inp, cell, detail=None):
        d = detail or {}
        return "%s/%s" % (label, d.get("path", d.get("coercion", "")))


HARNESS = C15()
