"""C09 -- composite forecasters mean exactly the composition of their parts."""
from ..runner import Harness
from ..hutil import L, S, fresh_ints, fresh_reals, increasing
from .stubs import make_member, make_transformer, make_regressor
from . import c06


def agg(kind, vals):
    if kind == "mean":
        return sum(vals) / len(vals)
    if kind == "median":
        o = c06.ordered(vals)
        n = len(vals)
        return vals[o[n // 2]] if n % 2 else (vals[o[n // 2 - 1]] + vals[o[n // 2]]) / 2
    if kind == "min":
        m = vals[0]
        for v in vals[1:]:
            m = c06.vmin(m, v)
        return m
    m = vals[0]
    for v in vals[1:]:
        m = c06.vmax(m, v)
    return m


class C09(Harness):
    pid = "C09"
    labels = (
        "ensemble-aggregate",
        "members-fitted-on-full-series",
        "members-updated",
        "index",
        "cutoff",
        "pipeline-fit-chain",
        "pipeline-forecaster-sees-transformed-data",
        "pipeline-predict-chain",
        "pipeline-update-transformed",
        "pipeline-transform-methods",
        "multiplexer-is-selected-member",
        "online-ensemble-weighted",
        "online-ensemble-prequential",
        "multiplexer-unknown-rejected",
        "stacking-holdout",
        "stacking-meta-training",
        "stacking-refit-on-all",
        "stacking-predict",
        "invalid-aggfunc-rejected",
    )
    stubs = (
        "member forecasters := recording sktime forecasters with forecast = uninterpreted function of (member, cutoff, label)",
        "series transformers := recording _SeriesToSeriesTransformer stubs, transform / inverse_transform = elementwise uninterpreted functions t(tag, v), tinv(tag, v)",
        "meta-regressor := recording stub, predict = uninterpreted function of the row",
    )
    assumptions = ("integer RangeIndex series", "update batches are later than the training series (consecutive labels)")
    outside = ("OnlineEnsembleForecaster (numeric weight updates)", "exogenous data in composites", "nesting depth > 2")

    def bounds(self, tier):
        q = tier == "quick"
        return {"n": "3..%d" % (4 if q else 6), "members": [2, 3], "transformers": [1, 2], "fh_steps": [1, 2], "update_batch": "0..2 observations"}

    def cells(self, tier):
        out = []
        for a in ("mean", "median", "min", "max"):
            for m in (2, 3):
                out.append({"name": "ensemble-%s-m%d" % (a, m), "kind": "ensemble", "agg": a, "M": m, "cost": m})
        for nt in (1, 2):
            out.append({"name": "pipeline-t%d" % nt, "kind": "pipeline", "NT": nt, "cost": 2})
        out.append({"name": "multiplexer", "kind": "multiplexer", "cost": 1})
        out.append({"name": "online-ensemble", "kind": "online", "cost": 1})
        out.append({"name": "stacking", "kind": "stacking", "cost": 2})
        out.append({"name": "nested-ensemble-in-pipeline", "kind": "nested1", "cost": 2})
        out.append({"name": "nested-pipeline-in-ensemble", "kind": "nested2", "cost": 2})
        return out

    def inputs(self, ctx, cell):
        q = self._tier == "quick"
        n = ctx.fresh_int("n")
        ctx.assume((n >= 3) & (n <= (4 if q else 6)))
        nn = int(n)
        K = int(self._choice(ctx, "K", 1, 2))
        hs = fresh_ints(ctx, "h", K)
        increasing(ctx, hs, lo=1)
        ctx.assume(hs[-1] <= 3)
        nb = int(self._choice(ctx, "nb", 0, 2))
        if cell.get("agg") == "median" and (K > 1 or nb > (1 if cell["M"] == 2 else 0)) and q:
            ctx.assume(False)  # the median forks on every ordering: smaller quick bound
        if cell.get("agg") == "median" and cell["M"] == 3 and K > 1 and nb > 0:
            ctx.assume(False)
        inp = {"n": nn, "s0": ctx.fresh_int("s0"), "y": fresh_reals(ctx, "y", nn), "fh": hs, "u": fresh_reals(ctx, "u", nb), "update_params": bool(ctx.fresh_bool("update_params")) if nb else True}
        if cell["kind"] == "pipeline":
            inp["skip"] = [bool(ctx.fresh_bool("skip%d" % i)) for i in range(cell["NT"])]
        if cell["kind"] == "multiplexer":
            inp["sel"] = int(self._choice(ctx, "sel", 0, 3))
            inp["alpha"] = ctx.fresh_real("alpha")  # level of a requested prediction interval
            ctx.assume((inp["alpha"] > 0) & (inp["alpha"] < 1))
        if cell["kind"] == "online":
            inp["w0"] = fresh_reals(ctx, "w0_", 2)  # the weighting algorithm's weights before / after it has seen the new window
            inp["w1"] = fresh_reals(ctx, "w1_", 2)
        if cell["kind"] == "stacking":
            ctx.assume(hs[-1] <= nn - 1)
            inp["fh"] = [int(h) for h in hs]
        return inp

    @staticmethod
    def _choice(ctx, name, lo, hi):
        v = ctx.fresh_int(name)
        ctx.assume((v >= lo) & (v <= hi))
        return v

    # ------------------------------------------------------------------
    def scenario(self, W, inp, cell):
        np, pd = W.np, W.pd
        self._curW = W
        log = []
        Member = make_member(W, log)
        # (the plain pipeline's transformers are stateful: an update with parameter re-estimation moves their state, so the
        #  order "update the transformer, then transform the new data with it" is observable)
        T, TSkip = make_transformer(W, log, stateful=(cell["kind"] == "pipeline"))
        n, s0 = inp["n"], inp["s0"]
        y = pd.Series(inp["y"], index=pd.RangeIndex(s0, s0 + n))
        nb = len(inp["u"])
        yb = pd.Series(inp["u"], index=pd.RangeIndex(s0 + n, s0 + n + nb)) if nb else None
        fh = np.array(inp["fh"])
        kind = cell["kind"]
        out = {}
        ENS = W.load("sktime.forecasting.compose._ensemble").EnsembleForecaster
        PIPE = W.load("sktime.forecasting.compose._pipeline").TransformedTargetForecaster
        if kind == "ensemble":
            f = ENS([("m%d" % i, Member(p=i)) for i in range(1, cell["M"] + 1)], aggfunc=cell["agg"])
        elif kind == "pipeline":
            steps = [("t%d" % (i + 1), (TSkip if inp["skip"][i] else T)(tag=i + 1)) for i in range(cell["NT"])]
            f = PIPE(steps + [("f", Member(p=9))])
        elif kind == "multiplexer":
            MUX = W.load("sktime.forecasting.compose._multiplexer").MultiplexForecaster
            names = ["a", "b", "ab", "zzz"]  # one member's name is contained in a later member's name
            f = MUX([("a", Member(p=1)), ("b", Member(p=2)), ("ab", Member(p=3))], selected_forecaster=names[inp["sel"]])
        elif kind == "online":
            OE = W.load("sktime.forecasting.online_learning._online_ensemble").OnlineEnsembleForecaster
            alg_log = []

            class Alg:
                """stands for a weighting algorithm (NNLS, hedge, ...): exposes .weights, learns in .update(predictions, truth)"""

                def __init__(self):
                    self.weights = np.array(list(inp["w0"]))

                def update(self, predictions, truth):
                    alg_log.append({"preds": [L(r) for r in L(predictions)], "y": L(truth)})
                    self.weights = np.array(list(inp["w1"]))

            f = OE([("a", Member(p=1)), ("b", Member(p=2))], ensemble_algorithm=Alg())
            out["alg_log"] = alg_log
        elif kind == "stacking":
            STK = W.load("sktime.forecasting.compose._stack").StackingForecaster
            Reg = make_regressor(W, log)
            f = STK([("a", Member(p=1)), ("b", Member(p=2))], final_regressor=Reg())
        elif kind == "nested1":
            f = PIPE([("t1", T(tag=1)), ("ens", ENS([("a", Member(p=1)), ("b", Member(p=2))]))])
        elif kind == "nested2":
            f = ENS([("pipe", PIPE([("t1", T(tag=1)), ("f", Member(p=1))])), ("b", Member(p=2))])
        try:
            f.fit(y, fh=fh)
        except Exception as e:  # noqa
            return {"rejected": type(e).__name__}
        out["rejected"] = None
        if hasattr(f, "forecasters"):
            # the member objects handed to the constructor are templates: the composite works on clones of them
            out["templates_fitted"] = [bool(m.is_fitted) for _, m in f.forecasters if hasattr(m, "is_fitted")]
        out["fitlog"] = list(log)
        del log[:]
        p1 = f.predict()
        out["pred1"] = [L(p1.index), L(p1.values)]
        out["cutoff1"] = S(f.cutoff)
        out["predlog1"] = list(log)
        del log[:]
        if nb:
            if inp["update_params"] and kind != "online":  # (the online ensemble documents update_params=False as its default)
                f.update(yb)  # (re-estimation is update's default: the bare call)
            else:
                f.update(yb, update_params=inp["update_params"])
            out["updlog"] = list(log)
            del log[:]
            p2 = f.predict()
            out["pred2"] = [L(p2.index), L(p2.values)]
            out["cutoff2"] = S(f.cutoff)
        if kind == "pipeline":
            z = pd.Series(inp["y"][:2], index=pd.RangeIndex(s0, s0 + 2))
            zt = f.transform(z)
            zi = f.inverse_transform(z)
            out["tr"] = L(zt.values)
            out["itr"] = L(zi.values)
        if kind == "multiplexer":
            del log[:]
            pi = f.predict(return_pred_int=True, alpha=inp["alpha"])
            out["interval"] = {"asked": [e["alpha"] for e in log if e["op"] == "predict_int"], "lower": L(pi[1]["lower"].values), "upper": L(pi[1]["upper"].values), "index": L(pi[1].index)}
            # the same object, re-used: another member is selected (and a member's parameter changed), then fit again
            del log[:]
            sel2 = (inp["sel"] + 1 + (nb % 2)) % 3
            f.set_params(selected_forecaster=names[sel2])
            f.set_params(**{"%s__p" % names[sel2]: 7 + sel2})
            f.fit(y, fh=fh)
            p3 = f.predict()
            out["resel"] = {"sel2": sel2, "fits": [e["who"] for e in log if e["op"] == "fit"], "pred": [L(p3.index), L(p3.values)]}
        if kind == "ensemble":
            g = ENS([("a", Member(p=1))], aggfunc="mode").fit(y, fh=fh)
            try:
                g.predict()
                out["badagg"] = False
            except ValueError:
                out["badagg"] = True
        return out

    # ------------------------------------------------------------------
    def oracle(self, P, inp, out, cell):
        W = self._curW
        kind = cell["kind"]
        n, s0, y, fh, u = inp["n"], inp["s0"], inp["y"], inp["fh"], inp["u"]
        nb = len(u)
        c1 = s0 + n - 1
        c2 = c1 + nb
        F = lambda p, c, l: W.uf("forecast", [p, c, l], "iii>r")  # noqa
        Tf = lambda tag, v: W.uf("t", [tag, v], "ir>r")  # noqa
        Ti = lambda tag, v: W.uf("tinv", [tag, v], "ir>r")  # noqa

        if kind == "multiplexer" and inp["sel"] == 3:
            P.check("multiplexer-unknown-rejected", out["rejected"] is not None)
            return
        P.check("multiplexer-unknown-rejected" if kind == "multiplexer" else "index", out["rejected"] is None, {"rejected": out["rejected"]})
        if out["rejected"] is not None:
            return

        def check_index(pred, c):
            idx, vals = pred
            P.check("index", len(idx) == len(fh) and len(vals) == len(fh))
            for a, h in zip(idx, fh):
                P.eq("index", a, c + h)
            return len(idx) == len(fh)

        def fits_full(log, who, vals_expected, label="members-fitted-on-full-series"):
            es = [e for e in log if e["op"] == "fit" and e["who"] == who]
            P.check(label, len(es) == 1)
            for e in es[:1]:
                P.check(label, len(e["idx"]) == len(vals_expected))
                for i, (a, v) in enumerate(zip(e["idx"], e["vals"])):
                    P.eq(label, a, s0 + i)
                    P.eq(label, v, vals_expected[i])

        def updated(log, who, vals_expected, label="members-updated"):
            es = [e for e in log if e["op"] == "update" and e["who"] == who]
            P.check(label, len(es) == 1)
            for e in es[:1]:
                P.check(label, len(e["idx"]) == nb and e["update_params"] == inp["update_params"])
                for i, (a, v) in enumerate(zip(e["idx"], e["vals"])):
                    P.eq(label, a, s0 + n + i)
                    P.eq(label, v, vals_expected[i])

        P.eq("cutoff", out["cutoff1"], c1)
        if nb:
            P.eq("cutoff", out["cutoff2"], c2)
        if "templates_fitted" in out:
            P.check("members-fitted-on-full-series", not any(out["templates_fitted"]), {"what": "member templates passed to the constructor were fitted in place", "fitted": out["templates_fitted"]})

        if kind == "ensemble":
            M = cell["M"]
            for p in range(1, M + 1):
                fits_full(out["fitlog"], p, y)
            if check_index(out["pred1"], c1):
                for v, h in zip(out["pred1"][1], fh):
                    P.eq("ensemble-aggregate", v, agg(cell["agg"], [F(p, c1, c1 + h) for p in range(1, M + 1)]))
            if nb:
                for p in range(1, M + 1):
                    updated(out["updlog"], p, u)
                if check_index(out["pred2"], c2):
                    for v, h in zip(out["pred2"][1], fh):
                        P.eq("ensemble-aggregate", v, agg(cell["agg"], [F(p, c2, c2 + h) for p in range(1, M + 1)]))
            P.check("invalid-aggfunc-rejected", out["badagg"])
        elif kind == "pipeline":
            NT = cell["NT"]

            def fwd(v, upto=NT, shift=0):
                for t in range(1, upto + 1):
                    v = Tf(t + shift, v)
                return v

            def bwd(v, shift=0):
                for t in range(NT, 0, -1):
                    if not inp["skip"][t - 1]:
                        v = Ti(t + shift, v)
                return v

            sh = 100 if (nb and inp["update_params"]) else 0  # state of the transformers after the update

            # transformers fitted in order on the successively transformed series
            for t in range(1, NT + 1):
                es = [e for e in out["fitlog"] if e["op"] == "t.fit" and e["who"] == t]
                P.check("pipeline-fit-chain", len(es) == 1 and len(es[0]["vals"]) == n)
                for e in es[:1]:
                    for i, v in enumerate(e["vals"]):
                        P.eq("pipeline-fit-chain", v, fwd(y[i], t - 1))
            fits_full(out["fitlog"], 9, [fwd(v) for v in y], "pipeline-forecaster-sees-transformed-data")
            if check_index(out["pred1"], c1):
                for v, h in zip(out["pred1"][1], fh):
                    P.eq("pipeline-predict-chain", v, bwd(F(9, c1, c1 + h)))
            if nb:
                updated(out["updlog"], 9, [fwd(v, NT, sh) for v in u], "pipeline-update-transformed")
                for t in range(1, NT + 1):
                    es = [e for e in out["updlog"] if e["op"] == "t.update" and e["who"] == t]
                    P.check("pipeline-update-transformed", len(es) == 1 and len(es[0]["vals"]) == nb)
                    for e in es[:1]:
                        for i, v in enumerate(e["vals"]):
                            P.eq("pipeline-update-transformed", v, fwd(u[i], t - 1, sh))
                if check_index(out["pred2"], c2):
                    for v, h in zip(out["pred2"][1], fh):
                        P.eq("pipeline-predict-chain", v, bwd(F(9, c2, c2 + h), sh))
            for i in range(2):
                P.eq("pipeline-transform-methods", out["tr"][i], fwd(y[i], NT, sh))  # (with the transformers' current state)
                v = y[i]
                for t in range(NT, 0, -1):
                    v = Ti(t + sh, v)
                P.eq("pipeline-transform-methods", out["itr"][i], v)
        elif kind == "multiplexer":
            p = inp["sel"] + 1
            log = out["fitlog"]
            P.check("multiplexer-is-selected-member", [e["who"] for e in log if e["op"] == "fit"] == [p])
            fits_full(log, p, y, "multiplexer-is-selected-member")
            if check_index(out["pred1"], c1):
                for v, h in zip(out["pred1"][1], fh):
                    P.eq("multiplexer-is-selected-member", v, F(p, c1, c1 + h))
            if nb:
                P.check("multiplexer-is-selected-member", [e["who"] for e in out["updlog"] if e["op"] == "update"] == [p])
                updated(out["updlog"], p, u, "multiplexer-is-selected-member")
                if check_index(out["pred2"], c2):
                    for v, h in zip(out["pred2"][1], fh):
                        P.eq("multiplexer-is-selected-member", v, F(p, c2, c2 + h))
            # prediction intervals are the selected member's, at the requested level
            iv = out["interval"]
            cN = c2 if nb else c1
            P.check("multiplexer-is-selected-member", len(iv["asked"]) == 1, {"what": "interval request forwarded once"})
            for a_ in iv["asked"][:1]:
                P.eq("multiplexer-is-selected-member", a_, inp["alpha"], {"what": "interval level forwarded"})
            for lo, up, lab, h in zip(iv["lower"], iv["upper"], iv["index"], fh):
                P.eq("multiplexer-is-selected-member", lab, cN + h)
                P.eq("multiplexer-is-selected-member", lo, W.uf("pi_lower", [p, cN, cN + h, inp["alpha"]], "iiir>r"), {"what": "interval of the member at the requested level"})
                P.eq("multiplexer-is-selected-member", up, W.uf("pi_upper", [p, cN, cN + h, inp["alpha"]], "iiir>r"), {"what": "interval of the member at the requested level"})
            rs = out["resel"]
            p2 = 7 + rs["sel2"]
            P.check("multiplexer-is-selected-member", rs["fits"] == [p2], {"what": "refit after re-selection", "fits": rs["fits"], "want": p2})
            if check_index(rs["pred"], c1):
                for v, h in zip(rs["pred"][1], fh):
                    P.eq("multiplexer-is-selected-member", v, F(p2, c1, c1 + h), {"what": "refit after re-selection"})
        elif kind == "online":
            w0, w1 = inp["w0"], inp["w1"]
            for p in (1, 2):
                fits_full(out["fitlog"], p, y)
            if check_index(out["pred1"], c1):
                for v, h in zip(out["pred1"][1], fh):
                    P.eq("online-ensemble-weighted", v, w0[0] * F(1, c1, c1 + h) + w0[1] * F(2, c1, c1 + h))
            al = out["alg_log"]
            P.check("online-ensemble-prequential", len(al) == (1 if nb else 0), {"algorithm_updates": len(al)})
            if nb and len(al) == 1:
                # the algorithm is shown the members' forecasts of the new window made *before* they saw it, and the truth
                P.check("online-ensemble-prequential", len(al[0]["preds"]) == 2 and all(len(r) == nb for r in al[0]["preds"]) and len(al[0]["y"]) == nb)
                for pi_, row in enumerate(al[0]["preds"]):
                    for i, v in enumerate(row[:nb]):
                        P.eq("online-ensemble-prequential", v, F(pi_ + 1, c1, c1 + 1 + i), {"member": pi_ + 1, "step": i + 1})
                for v, t in zip(al[0]["y"], u):
                    P.eq("online-ensemble-prequential", v, t)
                for p in (1, 2):
                    updated(out["updlog"], p, u)
                if check_index(out["pred2"], c2):
                    for v, h in zip(out["pred2"][1], fh):
                        P.eq("online-ensemble-weighted", v, w1[0] * F(1, c2, c2 + h) + w1[1] * F(2, c2, c2 + h))
        elif kind == "stacking":
            hK = fh[-1]
            log = out["fitlog"]
            fits = [e for e in log if e["op"] == "fit"]
            P.check("stacking-holdout", len(fits) == 4)
            if len(fits) == 4:
                ch = s0 + n - 1 - hK  # cutoff of the hold-out fit
                for e in fits[:2]:
                    P.check("stacking-holdout", len(e["idx"]) == n - hK)
                    for i, (a, v) in enumerate(zip(e["idx"], e["vals"])):
                        P.eq("stacking-holdout", a, s0 + i)
                        P.eq("stacking-holdout", v, y[i])
                    P.check("stacking-holdout", e["idx"][-1] < ch + fh[0])
                for e in fits[2:]:
                    P.check("stacking-refit-on-all", len(e["idx"]) == n)
                    for i, (a, v) in enumerate(zip(e["idx"], e["vals"])):
                        P.eq("stacking-refit-on-all", a, s0 + i)
                        P.eq("stacking-refit-on-all", v, y[i])
                # order: hold-out fits, their predictions, meta fit, refits
                ops = [e["op"] for e in log]
                P.check("stacking-holdout", ops == ["fit", "fit", "predict", "predict", "reg.fit", "fit", "fit"])
                rf = [e for e in log if e["op"] == "reg.fit"]
                P.check("stacking-meta-training", len(rf) == 1)
                for e in rf[:1]:
                    P.check("stacking-meta-training", len(e["X"]) == len(fh) and len(e["y"]) == len(fh))
                    if len(e["X"]) == len(fh):
                        for row, tgt, h in zip(e["X"], e["y"], fh):
                            P.check("stacking-meta-training", len(row) == 2)
                            P.eq("stacking-meta-training", row[0], F(1, ch, ch + h))
                            P.eq("stacking-meta-training", row[1], F(2, ch, ch + h))
                            P.eq("stacking-meta-training", tgt, y[n - 1 - hK + h])
            if check_index(out["pred1"], c1):
                for v, h in zip(out["pred1"][1], fh):
                    P.eq("stacking-predict", v, W.uf("meta_2", [F(1, c1, c1 + h), F(2, c1, c1 + h)], "rr>r"))
            if nb:
                for p in (1, 2):
                    updated(out["updlog"], p, u)
                if check_index(out["pred2"], c2):
                    for v, h in zip(out["pred2"][1], fh):
                        P.eq("stacking-predict", v, W.uf("meta_2", [F(1, c2, c2 + h), F(2, c2, c2 + h)], "rr>r"))
        elif kind == "nested1":
            for p in (1, 2):
                fits_full(out["fitlog"], p, [Tf(1, v) for v in y], "pipeline-forecaster-sees-transformed-data")
            if check_index(out["pred1"], c1):
                for v, h in zip(out["pred1"][1], fh):
                    P.eq("pipeline-predict-chain", v, Ti(1, (F(1, c1, c1 + h) + F(2, c1, c1 + h)) / 2))
            if nb:
                for p in (1, 2):
                    updated(out["updlog"], p, [Tf(1, v) for v in u], "pipeline-update-transformed")
        elif kind == "nested2":
            fits_full(out["fitlog"], 1, [Tf(1, v) for v in y], "pipeline-forecaster-sees-transformed-data")
            fits_full(out["fitlog"], 2, y)
            if check_index(out["pred1"], c1):
                for v, h in zip(out["pred1"][1], fh):
                    P.eq("ensemble-aggregate", v, (Ti(1, F(1, c1, c1 + h)) + F(2, c1, c1 + h)) / 2)
            if nb:
                updated(out["updlog"], 1, [Tf(1, v) for v in u], "pipeline-update-transformed")
                updated(out["updlog"], 2, u)

    def signature(self, label, inp, cell):
        return "%s/%s" % (cell["kind"], label)


HARNESS = C09()


def run_check(tier, seed, jobs=None, only=None):
    from .. import runner

    HARNESS._tier = tier
    return runner.run_check(HARNESS, tier, seed, jobs=jobs, only=only)
