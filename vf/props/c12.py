"""C12 -- applying an estimator is pure and repeatable (the part in reach: no mutation of the caller's data,
identical results on repetition, estimator attributes unchanged by apply-type calls)."""
import types
import warnings

from ..runner import Harness
from ..hutil import L, S, fresh_reals
from .. import msk, worlds
from ..symx import is_sym
from .stubs import make_member, make_transformer
from . import c13 as _c13, c14 as _c14


def is_nan(x):
    return isinstance(x, float) and x != x


SERIES_T = ["hampel", "imputer-mean", "imputer-ffill", "imputer-linear", "imputer-drift", "imputer-placeholder", "log", "boxcox-pearsonr", "adaptor", "detrender", "deseasonalizer", "deseasonalizer-mult", "passthrough", "cosine"]
FORECASTERS = ["naive-last", "naive-mean", "naive-drift", "naive-drift-failing-predict", "poly", "sm-adapter", "reduce-recursive", "reduce-direct", "ensemble", "pipeline"]
PANEL_T = ["padding", "truncation", "paa", "tabularizer", "concatenator", "interval", "sliding", "features", "pca", "random-interval", "derivative-slope", "plateau"]


def _contract_pca(getW):
    """scikit-learn's PCA reduced to its documented data contract: fit centres the data it is given -- on a copy
    when copy=True (the default), *in place* when copy=False ("data passed to fit are overwritten"); transform never
    writes to its argument; the scores are an uninterpreted function of the centred row."""
    import numpy as np
    from sklearn.base import BaseEstimator

    class PCA(BaseEstimator):
        def __init__(self, n_components=None, copy=True, **kw):
            self.n_components = n_components
            self.copy = copy

        def fit(self, X, y=None):
            if self.copy:
                X = X.copy()
            self.mean_ = [sum(X[:, j].tolist()) / X.shape[0] for j in range(X.shape[1])]
            for j in range(X.shape[1]):
                for i in range(X.shape[0]):
                    X[i, j] = X[i, j] - self.mean_[j]
            return self

        def transform(self, X):
            W = getW()
            k = self.n_components or min(X.shape)
            out = np.empty((X.shape[0], k), dtype=object)
            for i in range(X.shape[0]):
                row = [X[i, j] - self.mean_[j] for j in range(X.shape[1])] + [X[i, j] for j in range(X.shape[1])]
                for c in range(k):
                    out[i, c] = W.uf("pca_score%d_%d" % (c, len(row)), row, "r" * len(row) + ">r")
            return out

    return PCA


class C12(Harness):
    pid = "C12"
    labels = ("fit-leaves-caller-data-unchanged", "apply-leaves-caller-data-unchanged", "repeated-apply-same-result", "apply-leaves-estimator-unchanged")
    stubs = ("as in C13 / C14 / C03 for the respective estimators (seasonal decomposition, Box-Cox, statsmodels results, regressors, members: stubs)",)
    assumptions = (
        "NOT APPLICABLE part of the property (stated, not claimed): independence of thread schedules / n_jobs under joblib, pickling round trips and random_state reproducibility of forests and dictionary classifiers are C-level / concurrency behaviour that no Python-level SMT encoding here expresses",
    )
    outside = ("classifiers / regressors (C trees, numba kernels)", "nested DataFrame vs 3-D array containers for fitted ML estimators")
    max_validate_quick = 12

    def bounds(self, tier):
        return {"series_length": "4..5", "panel": "as C14", "estimators": {"series_transformers": SERIES_T, "forecasters": FORECASTERS, "panel_transformers": PANEL_T}}

    def cells(self, tier):
        out = [{"name": "st-" + k, "kind": "st", "which": k, "cost": 2} for k in SERIES_T]
        out += [{"name": "fc-" + k, "kind": "fc", "which": k, "cost": 2} for k in FORECASTERS]
        out += [{"name": "pt-" + k, "kind": "pt", "which": k, "cost": 2} for k in PANEL_T]
        return out

    def make_world(self, kind, cell):
        if cell["kind"] == "pt" and cell["which"] == "pca":
            if kind == "conc":
                return _c14.HARNESS.make_world(kind, {"kind": "x"})  # replays and trace validation run scikit-learn's real PCA
            W = self.__dict__.get("_Wpca")
            if W is None:
                from .c04 import numba_stub

                _c14.HARNESS.make_world(kind, {"kind": "x"})  # (applies the pandas shims)
                W = self._Wpca = worlds.make_conc_world({"numba": numba_stub(), "sklearn.decomposition": types.SimpleNamespace(PCA=_contract_pca(lambda: self._Wpca))})
            return W
        if cell["kind"] == "pt":
            return _c14.HARNESS.make_world(kind, {"kind": "x"})
        return Harness.make_world(self, kind, cell)

    def overrides(self, kind, cell):
        ov = {}
        w = cell["which"]
        hold = self.__dict__.setdefault("_hold", {})
        if w in ("deseasonalizer", "deseasonalizer-mult"):
            def seasonal_decompose(z, model=None, period=None, filt=None, two_sided=True, extrapolate_trend=0):
                W = hold[kind]["W"]
                sig = hold[kind]["sigma"]
                return types.SimpleNamespace(seasonal=W.pd.Series([sig[i % len(sig)] for i in range(len(z))], index=z.index))

            ov["statsmodels.tsa.seasonal"] = types.SimpleNamespace(seasonal_decompose=seasonal_decompose)
        if w == "boxcox-pearsonr":
            ov.update(_c13.HARNESS.overrides(kind, {"kind": "boxcox"}) or {})
        if kind == "sym" and w in ("detrender", "poly", "imputer-drift"):
            ov["sklearn.linear_model"] = types.SimpleNamespace(LinearRegression=msk.LinearRegression)
            ov["sklearn.pipeline"] = types.SimpleNamespace(make_pipeline=msk.make_pipeline)
            ov["sklearn.preprocessing"] = types.SimpleNamespace(PolynomialFeatures=msk.PolynomialFeatures)
        return ov or None

    def inputs(self, ctx, cell):
        def choice(name, lo, hi):
            v = ctx.fresh_int(name)
            ctx.assume((v >= lo) & (v <= hi))
            return int(v)

        if cell["kind"] == "pt":
            c = {"kind": {"interval": "interval-int", "pca": "concatenator", "random-interval": "features", "derivative-slope": "concatenator", "plateau": "sliding"}.get(cell["which"], cell["which"])}
            _c14.HARNESS._tier = "quick"
            inp = _c14.HARNESS._inputs(ctx, c)
            if cell["which"] == "plateau":
                # (every cell value is compared with the plateau value: one fork per value, so a small panel)
                if len(inp["x"]) > 2 or len(inp["x"][0][0]) > 3 or inp.get("w", 1) != 1:
                    ctx.assume(False)
            if cell["which"] == "derivative-slope":
                if len({len(col) for inst in inp["x"] for col in inst}) != 1 or len(inp["x"][0][0]) < 3:
                    ctx.assume(False)  # equal-length series of at least three points
                inp["labelled"] = choice("labelled", 0, 1)  # 1: the cells carry monthly period labels instead of 0..n-1
            if cell["which"] == "pca":
                if len(inp["x"][0]) != 1:
                    ctx.assume(False)  # univariate only
                inp["copy"] = choice("copy", 0, 1)  # 0: the wrapper's default; 1: copy=True passed explicitly
            return inp
        n = choice("n", 4, 5)
        inp = {"s0": ctx.fresh_int("s0"), "y": fresh_reals(ctx, "y", n), "z": fresh_reals(ctx, "z", 3)}
        w = cell["which"]
        if w in ("log", "boxcox-pearsonr"):
            for v in inp["y"] + inp["z"]:
                ctx.assume(v > 0)
        if w == "boxcox-pearsonr":
            inp["lam"] = ctx.fresh_real("lam")
            ctx.assume((inp["lam"] >= -2) & (inp["lam"] <= 2))
        if w == "imputer-placeholder":
            inp["mv"] = ctx.fresh_real("placeholder")
            ctx.assume(inp["mv"] != 0)
            inp["y"][1] = inp["mv"]  # the placeholder occurs in the data (other values may coincide with it too)
        elif w.startswith("imputer"):
            mask = [bool(ctx.fresh_bool("nan%d" % i)) for i in range(n)]
            if all(mask):
                ctx.assume(False)
            inp["y"] = [float("nan") if m else v for v, m in zip(inp["y"], mask)]
        if w == "naive-drift-failing-predict":
            if n != 5:
                ctx.assume(False)
            inp["y"][1] = float("nan")
        if w in ("deseasonalizer", "deseasonalizer-mult"):
            inp["sigma"] = fresh_reals(ctx, "sig", 2)
            if w.endswith("mult"):
                for s_ in inp["sigma"]:
                    ctx.assume(s_ != 0)
        if w == "hampel":
            inp["n_sigma"] = ctx.fresh_real("n_sigma")
            ctx.assume(inp["n_sigma"] > 0)
        return inp

    # ------------------------------------------------------------------
    def _snapshot(self, est, _depth=0):
        snap = {}
        for k, v in sorted(vars(est).items()):
            if k == "_fh":
                continue  # the horizon passed to the latest predict is remembered by design
            if isinstance(v, (list, tuple)) and all(hasattr(e, "shape") and hasattr(e, "tolist") for e in v):
                snap[k] = ["arrays", [L(e) if getattr(e, "ndim", 1) >= 1 else S(e) for e in v]]
            elif hasattr(v, "values") and hasattr(v, "index"):
                snap[k] = ["series", L(v.index), L(v.values) if getattr(v, "ndim", 1) == 1 else [L(r) for r in L(v.values)]]
            elif hasattr(v, "shape") and hasattr(v, "tolist"):
                snap[k] = ["array", L(v) if getattr(v, "ndim", 1) >= 1 else S(v)]
            elif isinstance(v, (int, float, str, bool, type(None))) or is_sym(v):
                snap[k] = ["scalar", v]
            elif hasattr(v, "get_params") and _depth < 1:
                snap[k] = ["estimator", id(v), self._snapshot(v, _depth + 1)]  # a wrapped estimator: its own state counts
            elif isinstance(v, list) and all(isinstance(e, (int, float, str, bool, type(None))) or is_sym(e) for e in v):
                snap[k] = ["list", list(v)]
            else:
                snap[k] = ["object", id(v)]
        return snap

    def scenario(self, W, inp, cell):
        warnings.simplefilter("ignore")
        self._curW = W
        if cell["kind"] == "pt":
            return self._panel(W, inp, cell)
        named = []
        out = self._series_scenario(W, inp, cell, named)
        # the caller's series carry a *named* time index: the name is part of the caller's data
        out["index_names"] = [[tag, getattr(s.index, "name", None)] for tag, s in named]
        return out

    def _series_scenario(self, W, inp, cell, named):
        np, pd = W.np, W.pd
        w = cell["which"]
        hold = self.__dict__.setdefault("_hold", {})
        hold[W.kind] = {"W": W, "sigma": inp.get("sigma")}
        s0, n = inp["s0"], len(inp["y"])
        log = []

        def ser(vals, start, rng=True):
            idx = pd.RangeIndex(start, start + len(vals), name="time") if rng else pd.Index([start + i for i in range(len(vals))], name="time")
            r = pd.Series(list(vals), index=idx)
            named.append(("series-%d" % len(named), r))
            return r

        y = ser(inp["y"], s0, rng=(w != "sm-adapter"))
        out = {}

        def pack(s):
            if hasattr(s, "index"):
                return [L(s.index), L(s.values)]
            return [None, L(s)]

        if cell["kind"] == "st":
            T, _ = make_transformer(W, log)
            if w == "hampel":
                t = W.load("sktime.transformations.series.outlier_detection").HampelFilter(window_length=3, n_sigma=inp["n_sigma"], k=1)
            elif w == "imputer-placeholder":
                t = W.load("sktime.transformations.series.impute").Imputer(method="mean", missing_values=inp["mv"])
            elif w.startswith("imputer"):
                t = W.load("sktime.transformations.series.impute").Imputer(method=w.split("-")[1])
            elif w == "log":
                t = W.load("sktime.transformations.series.boxcox").LogTransformer()
            elif w == "boxcox-pearsonr":
                _c13.HARNESS.__dict__.setdefault("_hold", {})[W.kind] = {"W": W, "lam": inp["lam"], "lam2": inp["lam"], "sigma": None, "s0": s0}
                t = W.load("sktime.transformations.series.boxcox").BoxCoxTransformer(method="pearsonr")
            elif w == "adaptor":
                from sklearn.base import BaseEstimator, TransformerMixin

                class Sk(TransformerMixin, BaseEstimator):
                    """a scikit-learn style scaler: learns a reference (first training value) at fit"""

                    def fit(self, Xa, y=None):
                        self.ref_ = S(Xa[0, 0])
                        return self

                    def transform(self, Xa):
                        return np.array([[W.uf("sk", [v, self.ref_], "rr>r")] for v in L(Xa[:, 0])])

                    def inverse_transform(self, Xa):
                        return np.array([[W.uf("skinv", [v, self.ref_], "rr>r")] for v in L(Xa[:, 0])])

                t = W.load("sktime.transformations.series.adapt").TabularToSeriesAdaptor(Sk())
            elif w == "detrender":
                t = W.load("sktime.transformations.series.detrend._detrend").Detrender()
            elif w == "deseasonalizer":
                t = W.load("sktime.transformations.series.detrend._deseasonalize").Deseasonalizer(sp=2)
            elif w == "deseasonalizer-mult":
                t = W.load("sktime.transformations.series.detrend._deseasonalize").Deseasonalizer(sp=2, model="multiplicative")
            elif w == "passthrough":
                t = W.load("sktime.transformations.series.compose").OptionalPassthrough(T(tag=1))
            else:
                t = W.load("sktime.transformations.series.cos").CosineTransformer()
            t.fit(y)
            out["y_after_fit"] = pack(y)
            z = y if (w == "hampel" or w.startswith("imputer")) else ser(inp["z"], s0 + n)
            zin = pack(z)
            before = self._snapshot(t)
            r1 = t.transform(z)
            out["z_after"] = pack(z)
            out["z_in"] = zin
            out["r1"] = pack(r1)
            mid = self._snapshot(t)
            r2 = t.transform(z)
            out["r2"] = pack(r2)
            if hasattr(t, "inverse_transform") and w in ("log", "detrender", "deseasonalizer", "deseasonalizer-mult", "passthrough", "adaptor", "boxcox-pearsonr"):
                rin = pack(r1)
                t.inverse_transform(r1)
                out["r1_after_inverse"] = pack(r1)
                out["r1_in"] = rin
                r3 = t.transform(z)
                out["r3"] = pack(r3)
            out["state"] = [before, mid, self._snapshot(t)]
            if w == "detrender":
                # a forecaster object handed to the constructor is a prototype: fitting the detrender leaves it alone, so a
                # second detrender built from the same object (fitted on other data) cannot change the first one's results
                DT = W.load("sktime.transformations.series.detrend._detrend").Detrender
                PTF = W.load("sktime.forecasting.trend").PolynomialTrendForecaster
                proto = PTF(degree=1)
                d1 = DT(forecaster=proto).fit(y)
                a1 = pack(d1.transform(z))
                proto_fitted = bool(proto.is_fitted)
                DT(forecaster=proto).fit(ser(list(reversed(inp["y"])), s0 + 3))
                out["shared_proto"] = {"prototype_fitted": proto_fitted or bool(proto.is_fitted), "a1": a1, "a2": pack(d1.transform(z))}
            return out
        # forecasters
        NF = W.load("sktime.forecasting.naive").NaiveForecaster
        Member = make_member(W, log)
        if w == "naive-drift-failing-predict":
            # an in-sample predict that raises part-way (a window bounded by the missing value) must leave the forecaster as it was
            f = NF("drift", window_length=3)
            f.fit(y)
            p1 = f.predict(np.array([1, 2]))
            before = self._snapshot(f)
            try:
                f.predict(np.array([-2, -1]))
                out["failing_predict_raised"] = False
            except ValueError:
                out["failing_predict_raised"] = True
            mid = self._snapshot(f)
            try:
                p2 = pack(f.predict(np.array([1, 2])))
            except ValueError:
                p2 = [["raised"], ["ValueError"]]
            out["y_after_fit"] = pack(y)
            out["r1"], out["r2"] = pack(p1), p2
            out["state"] = [before, mid, self._snapshot(f)]
            return out
        if w.startswith("naive"):
            f = NF(w.split("-")[1], window_length=3 if w == "naive-mean" else None)
        elif w == "poly":
            f = W.load("sktime.forecasting.trend").PolynomialTrendForecaster(degree=1)
        elif w == "sm-adapter":
            ad = W.load("sktime.forecasting.base.adapters._statsmodels")

            class Res:
                def __init__(self, first):
                    self.first = first

                def predict(self, start, end):
                    m = int(end - start) + 1
                    return pd.Series([W.uf("sm_forecast", [start + i], "i>r") for i in range(m)], index=pd.RangeIndex(self.first + start, self.first + end + 1))

            class Stub(ad._StatsModelsAdapter):
                def _fit_forecaster(self, y_train, X_train=None):
                    self._fitted_forecaster = Res(y_train.index[0])

            f = Stub()
        elif w == "reduce-recursive":
            from sklearn.base import BaseEstimator, RegressorMixin

            class Reg(RegressorMixin, BaseEstimator):
                def fit(self, X, y):
                    return self

                def predict(self, X):
                    flat = []
                    for row in L(X):
                        flat.extend(row)
                    return np.array([W.uf("reg_%d" % len(flat), flat, "r" * len(flat) + ">r")])

            f = W.load("sktime.forecasting.compose._reduce").make_reduction(Reg(), window_length=2)
        elif w == "reduce-direct":
            from sklearn.base import BaseEstimator, RegressorMixin

            class Reg(RegressorMixin, BaseEstimator):
                def fit(self, X, y):
                    self.t_ = S(L(y)[0])  # (a trace of the step this copy was trained for)
                    return self

                def predict(self, X):
                    flat = []
                    for row in L(X):
                        flat.extend(row)
                    return np.array([W.uf("dreg_%d" % len(flat), flat + [self.t_], "r" * (len(flat) + 1) + ">r")])

            f = W.load("sktime.forecasting.compose._reduce").make_reduction(Reg(), strategy="direct", window_length=2)
        elif w == "ensemble":
            f = W.load("sktime.forecasting.compose._ensemble").EnsembleForecaster([("a", NF()), ("b", Member(p=1))])
        else:
            T, _ = make_transformer(W, log)
            f = W.load("sktime.forecasting.compose._pipeline").TransformedTargetForecaster([("t", T(tag=1)), ("u", T(tag=2)), ("f", NF())])  # (two transformers that do not commute)
        yin = pack(y)
        yin_type = type(y.index).__name__
        fh = np.array([1, 2])
        f.fit(y, fh=fh)
        out["y_after_fit"] = pack(y)
        out["y_in"] = yin
        norm = lambda t: "IntIndex" if t in ("Index", "Int64Index") else t  # noqa  (pandas 2 has no Int64Index class)
        out["index_type"] = [norm(yin_type), norm(type(y.index).__name__)]
        before = self._snapshot(f)
        p1 = f.predict()
        r1_first = pack(p1)
        mid = self._snapshot(f)
        p2 = f.predict()
        out["r1"], out["r2"] = r1_first, pack(p2)
        out["y_after_predict"] = pack(y)
        out["state"] = [before, mid, self._snapshot(f)]
        # a result must not depend on which other apply-type calls came before: the absolute horizon {1, 2} asked
        # right after fit, and asked after a predict for the relative steps {1, 2} (cutoff -1, so the two differ)
        from sklearn.base import clone

        FHc = W.load("sktime.forecasting.base").ForecastingHorizon
        n = len(inp["y"])
        y2 = pd.Series(list(inp["y"]), index=pd.RangeIndex(-n, 0))
        res = []
        for warm in ((False, True) if w != "reduce-direct" else ()):  # (the direct reducer needs its horizon at fit)
            g = clone(f)
            g.fit(y2)
            if warm:
                g.predict(np.array([1, 2]))
            res.append(pack(g.predict(FHc(np.array([1, 2]), is_relative=False))))
        if res:
            out["interleave"] = res
        if w != "sm-adapter":
            # a forecast handed to the caller is the caller's: later data and a later forecast do not rewrite it
            f.update(ser(inp["z"][:2], s0 + n), update_params=False)
            f.predict()
            out["r1_kept"] = [r1_first, pack(p1)]
        if w.startswith("naive"):
            # window forecasters produce in-sample steps by walking their own data: asking twice gives the same answer
            g = clone(f)
            g.fit(y, fh=np.array([-1, 0, 1]))
            try:
                q1 = pack(g.predict())
                q2 = pack(g.predict())
                out["insample_twice"] = [q1, q2]
            except NotImplementedError:
                pass
        return out

    def _panel(self, W, inp, cell):
        import numpy as np
        import pandas as pd

        w = {"interval": "interval-int"}.get(cell["which"], cell["which"])
        c14 = _c14.HARNESS
        X, sym = c14._nested(inp["x"])
        if inp.get("labelled"):
            for j in range(X.shape[1]):
                for i in range(X.shape[0]):
                    X.iloc[i, j].index = pd.period_range("2000-%02d" % (1 + i), periods=len(X.iloc[i, j]), freq="M")

        def labels_of(df):
            return [[[type(df.iloc[i, j].index).__name__] + [str(v) for v in df.iloc[i, j].index] for j in range(df.shape[1])] for i in range(df.shape[0])]

        def _der(XX):
            DS = W.load("sktime.transformations.panel.summarize._extract").DerivativeSlopeTransformer
            return {"cells": _c14.cells_of(DS().fit(XX).transform(XX))}

        def _plateau(XX):
            PF = W.load("sktime.transformations.panel.summarize._extract").PlateauFinder
            return {"cells": _c14.cells_of(PF(value=1.0, min_length=1).fit(XX).transform(XX))}

        run = _plateau if w == "plateau" else _der if w == "derivative-slope" else (lambda XX: self._pca(W, XX, inp)) if w == "pca" else (lambda XX: c14._panel(W, XX, inp, {"kind": {"random-interval": "features"}.get(w, w)}, sym))
        worlds.TOKEN_MODE[0] = sym
        try:
            before = _c14.cells_of(X)
            lab_before = labels_of(X)
            r1 = run(X)
            after = _c14.cells_of(X)
            lab_after = labels_of(X)
            r2 = run(X)
            out = {"before": before, "after": after, "labels_before": lab_before, "labels_after": lab_after, "r1": {k: v for k, v in r1.items() if k != "back"}, "r2": {k: v for k, v in r2.items() if k != "back"}}
            lens = {len(col) for inst in inp["x"] for col in inst}
            t = self._pt_make(W, w, inp)
            if t is not None and len(lens) == 1 and min(lens) >= 2:
                # one fitted transformer: transform, transform a *shorter* panel in between, transform again
                Xs, _ = c14._nested([[col[:-1] for col in inst] for inst in inp["x"]])
                try:
                    t.fit(X)
                    s0_ = self._snapshot(t)
                    a1 = _c14.cells_of(t.transform(X)) if w != "tabularizer" else [[S(v) for v in row] for row in t.transform(X).to_numpy().tolist()]
                    s1_ = self._snapshot(t)
                    try:
                        t.transform(Xs)
                        short = "returned"
                    except Exception as e:  # noqa
                        short = type(e).__name__
                    s2_ = self._snapshot(t)
                    a2 = _c14.cells_of(t.transform(X)) if w != "tabularizer" else [[S(v) for v in row] for row in t.transform(X).to_numpy().tolist()]
                    if w == "plateau":
                        # the finder keeps its last result lists on the object (overwritten at the start of every call):
                        # not fitted state; what counts is that repeated calls agree (a1 / a2 below)
                        for sn in (s0_, s1_, s2_):
                            sn.pop("_starts", None)
                            sn.pop("_lengths", None)
                    out["proto"] = {"snaps": [s0_, s1_, s2_], "a1": a1, "a2": a2, "short": short}
                except ValueError:
                    out["proto"] = None
            if len(lens) == 1 and w not in ("padding", "truncation"):
                # the same panel handed over as a 3-D array (instances, columns, time points)
                A = np.empty((len(inp["x"]), len(inp["x"][0]), lens.pop()), dtype=object if sym else float)
                for i, inst in enumerate(inp["x"]):
                    for j, col in enumerate(inst):
                        for t, v in enumerate(col):
                            A[i, j, t] = v
                out["before3"] = [[[S(v) for v in col] for col in inst] for inst in A.tolist()]
                r3 = run(A)
                out["after3"] = [[[S(v) for v in col] for col in inst] for inst in A.tolist()]
                out["r3"] = {k: v for k, v in r3.items() if k != "back"}
                out["r3b"] = {k: v for k, v in run(A).items() if k != "back"}
            return out
        finally:
            worlds.TOKEN_MODE[0] = False

    def _pt_make(self, W, w, inp):
        P = "sktime.transformations.panel"
        if w == "paa":
            return W.load(P + ".dictionary_based._paa").PAA(num_intervals=inp["m"])
        if w == "tabularizer":
            return W.load(P + ".reduce").Tabularizer()
        if w == "concatenator":
            return W.load(P + ".compose").ColumnConcatenator()
        if w == "interval-int":
            return W.load(P + ".segment").IntervalSegmenter(intervals=inp["k"])
        if w == "random-interval":
            return W.load(P + ".segment").RandomIntervalSegmenter(n_intervals=2, random_state=inp["seed"])
        if w == "sliding":
            return W.load(P + ".segment").SlidingWindowSegmenter(window_length=inp["w"])
        if w == "plateau":
            return W.load(P + ".summarize._extract").PlateauFinder(value=1.0, min_length=1)
        return None

    def _pca(self, W, X, inp):
        PT = W.load("sktime.transformations.panel.pca").PCATransformer
        t = PT(n_components=1, **({"copy": True} if inp["copy"] else {}))
        r = t.fit(X).transform(X)
        return {"cells": _c14.cells_of(r)}

    # ------------------------------------------------------------------
    def _same_tree(self, P, label, a, b, detail=None):
        if isinstance(a, dict) and isinstance(b, dict):
            P.check(label, sorted(a) == sorted(b), detail)
            for k in a:
                if k in b:
                    self._same_tree(P, label, a[k], b[k], dict(detail or {}, key=str(k)))
            return
        if isinstance(a, (list, tuple)) and isinstance(b, (list, tuple)):
            P.check(label, len(a) == len(b), detail)
            for x, y in zip(a, b):
                self._same_tree(P, label, x, y, detail)
            return
        if is_nan(a) or is_nan(b):
            P.check(label, is_nan(a) and is_nan(b), detail)
            return
        if isinstance(a, (str, type(None), bool)) or isinstance(b, (str, type(None), bool)):
            P.check(label, a == b, detail)
            return
        P.eq(label, a, b, detail)

    def oracle(self, P, inp, out, cell):
        d = {"estimator": cell["which"]}
        if cell["kind"] == "pt":
            self._same_tree(P, "apply-leaves-caller-data-unchanged", out["after"], out["before"], d)
            P.check("apply-leaves-caller-data-unchanged", out["labels_after"] == out["labels_before"], dict(d, what="time labels of the caller's cells"))
            self._same_tree(P, "repeated-apply-same-result", out["r2"], out["r1"], d)
            pr = out.get("proto")
            if pr:
                s0_, s1_, s2_ = pr["snaps"]
                self._same_tree(P, "apply-leaves-estimator-unchanged", s1_, s0_, dict(d, after="transform"))
                self._same_tree(P, "apply-leaves-estimator-unchanged", s2_, s0_, dict(d, after="transform of a shorter panel (%s)" % pr["short"]))
                self._same_tree(P, "repeated-apply-same-result", pr["a2"], pr["a1"], dict(d, what="same fitted transformer, a shorter panel transformed in between"))
            if "before3" in out:
                d3 = dict(d, container="3-D array")
                self._same_tree(P, "fit-leaves-caller-data-unchanged", out["after3"], out["before3"], d3)
                self._same_tree(P, "repeated-apply-same-result", out["r3b"], out["r3"], d3)
            return
        for tag, nm in out.get("index_names", []):
            P.check("apply-leaves-caller-data-unchanged", nm == "time", dict(d, what="name of the caller's time index", series=tag, name=str(nm)))
        s0 = inp["s0"]
        n = len(inp["y"])
        yi, yv = out["y_after_fit"]
        P.check("fit-leaves-caller-data-unchanged", len(yv) == n, d)
        for i in range(min(n, len(yv))):
            self._same_tree(P, "fit-leaves-caller-data-unchanged", yv[i], inp["y"][i], d)
            P.eq("fit-leaves-caller-data-unchanged", yi[i], s0 + i, d)
        if "index_type" in out:
            P.check("fit-leaves-caller-data-unchanged", out["index_type"][0] == out["index_type"][1], dict(d, index_type=out["index_type"]))
            self._same_tree(P, "apply-leaves-caller-data-unchanged", out["y_after_predict"], out["y_in"], d)
        if "z_in" in out:
            self._same_tree(P, "apply-leaves-caller-data-unchanged", out["z_after"], out["z_in"], d)
        if "r1_in" in out:
            self._same_tree(P, "apply-leaves-caller-data-unchanged", out["r1_after_inverse"], out["r1_in"], d)
            self._same_tree(P, "repeated-apply-same-result", out["r3"], out["r1"], d)
        self._same_tree(P, "repeated-apply-same-result", out["r2"], out["r1"], d)
        if "shared_proto" in out:
            sp_ = out["shared_proto"]
            P.check("fit-leaves-caller-data-unchanged", not sp_["prototype_fitted"], dict(d, what="the forecaster passed to the constructor was fitted in place"))
            self._same_tree(P, "repeated-apply-same-result", sp_["a2"], sp_["a1"], dict(d, what="another detrender built from the same forecaster object was fitted in between"))
        if "insample_twice" in out:
            self._same_tree(P, "repeated-apply-same-result", out["insample_twice"][1], out["insample_twice"][0], dict(d, what="predict() repeated with an in-sample horizon given at fit"))
        if "r1_kept" in out:
            self._same_tree(P, "apply-leaves-caller-data-unchanged", out["r1_kept"][1], out["r1_kept"][0], dict(d, what="an earlier returned forecast after update(update_params=False) and another predict"))
        if "interleave" in out:
            self._same_tree(P, "repeated-apply-same-result", out["interleave"][1], out["interleave"][0], dict(d, what="after an interleaved predict with another horizon"))
            for lab, want in zip(out["interleave"][0][0], (1, 2)):
                P.eq("repeated-apply-same-result", lab, want, dict(d, what="absolute horizon labels"))
        b, m, a = out["state"]
        self._same_tree(P, "apply-leaves-estimator-unchanged", m, b, d)
        self._same_tree(P, "apply-leaves-estimator-unchanged", a, b, d)

    def comparable(self, out, cell):
        if cell.get("which") == "pca":  # the scores come from the contract model (symbolic) resp. the real SVD (concrete): only the data are compared
            return {k: v for k, v in out.items() if k in ("before", "after", "before3", "after3")}
        def strip(t):
            if isinstance(t, dict):
                return {k: strip(v) for k, v in t.items()}
            if isinstance(t, list):
                if len(t) == 2 and t[0] == "object":
                    return ["object", 0]
                if len(t) == 3 and t[0] == "estimator":
                    return ["object", 0]  # (a wrapped estimator's own state is judged by the oracle in each world, not compared across worlds)
                return [strip(v) for v in t]
            return t

        o = strip(out)
        if cell["which"] in ("log", "cosine", "boxcox-pearsonr"):  # transcendental values: uninterpreted (symbolic) vs floats (real)
            return {"y_after_fit": o.get("y_after_fit"), "z_after": o.get("z_after")}
        return o

    def signature(self, label, inp, cell, detail=None):
        return "%s/%s" % (cell["name"], label)


HARNESS = C12()
