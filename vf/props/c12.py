"""C12 -- applying an estimator is pure and repeatable (the part in reach: no mutation of the caller's data,
identical results on repetition, estimator attributes unchanged by apply-type calls)."""
import types
import warnings

from ..runner import Harness
from ..hutil import L, S, fresh_reals
from .. import msk, worlds
from ..symx import is_sym
from .stubs import make_member, make_transformer
from . import c13 as _c13, c14 as _c14


def is_nan(x):
    return isinstance(x, float) and x != x


SERIES_T = ["hampel", "imputer-mean", "imputer-ffill", "imputer-linear", "imputer-drift", "imputer-placeholder", "log", "detrender", "deseasonalizer", "passthrough", "cosine"]
FORECASTERS = ["naive-last", "naive-mean", "naive-drift", "naive-drift-failing-predict", "poly", "sm-adapter", "reduce-recursive", "ensemble", "pipeline"]
PANEL_T = ["padding", "truncation", "paa", "tabularizer", "concatenator", "interval", "sliding", "features"]


class C12(Harness):
    pid = "C12"
    labels = ("fit-leaves-caller-data-unchanged", "apply-leaves-caller-data-unchanged", "repeated-apply-same-result", "apply-leaves-estimator-unchanged")
    stubs = ("as in C13 / C14 / C03 for the respective estimators (seasonal decomposition, Box-Cox, statsmodels results, regressors, members: stubs)",)
    assumptions = (
        "NOT APPLICABLE part of the property (stated, not claimed): independence of thread schedules / n_jobs under joblib, pickling round trips and random_state reproducibility of forests and dictionary classifiers are C-level / concurrency behaviour that no Python-level SMT encoding here expresses",
    )
    outside = ("classifiers / regressors (C trees, numba kernels)", "nested DataFrame vs 3-D array containers for fitted ML estimators")
    max_validate_quick = 12

    def bounds(self, tier):
        return {"series_length": "4..5", "panel": "as C14", "estimators": {"series_transformers": SERIES_T, "forecasters": FORECASTERS, "panel_transformers": PANEL_T}}

    def cells(self, tier):
        out = [{"name": "st-" + k, "kind": "st", "which": k, "cost": 2} for k in SERIES_T]
        out += [{"name": "fc-" + k, "kind": "fc", "which": k, "cost": 2} for k in FORECASTERS]
        out += [{"name": "pt-" + k, "kind": "pt", "which": k, "cost": 2} for k in PANEL_T]
        return out

    def make_world(self, kind, cell):
        if cell["kind"] == "pt":
            return _c14.HARNESS.make_world(kind, {"kind": "x"})
        return Harness.make_world(self, kind, cell)

    def overrides(self, kind, cell):
        ov = {}
        w = cell["which"]
        hold = self.__dict__.setdefault("_hold", {})
        if w == "deseasonalizer":
            def seasonal_decompose(z, model=None, period=None, filt=None, two_sided=True, extrapolate_trend=0):
                W = hold[kind]["W"]
                sig = hold[kind]["sigma"]
                return types.SimpleNamespace(seasonal=W.pd.Series([sig[i % len(sig)] for i in range(len(z))], index=z.index))

            ov["statsmodels.tsa.seasonal"] = types.SimpleNamespace(seasonal_decompose=seasonal_decompose)
        if kind == "sym" and w in ("detrender", "poly", "imputer-drift"):
            ov["sklearn.linear_model"] = types.SimpleNamespace(LinearRegression=msk.LinearRegression)
            ov["sklearn.pipeline"] = types.SimpleNamespace(make_pipeline=msk.make_pipeline)
            ov["sklearn.preprocessing"] = types.SimpleNamespace(PolynomialFeatures=msk.PolynomialFeatures)
        return ov or None

    def inputs(self, ctx, cell):
        def choice(name, lo, hi):
            v = ctx.fresh_int(name)
            ctx.assume((v >= lo) & (v <= hi))
            return int(v)

        if cell["kind"] == "pt":
            c = {"kind": {"interval": "interval-int"}.get(cell["which"], cell["which"])}
            _c14.HARNESS._tier = "quick"
            return _c14.HARNESS.inputs(ctx, c)
        n = choice("n", 4, 5)
        inp = {"s0": ctx.fresh_int("s0"), "y": fresh_reals(ctx, "y", n), "z": fresh_reals(ctx, "z", 3)}
        w = cell["which"]
        if w == "log":
            for v in inp["y"] + inp["z"]:
                ctx.assume(v > 0)
        if w == "imputer-placeholder":
            inp["mv"] = ctx.fresh_real("placeholder")
            ctx.assume(inp["mv"] != 0)
            inp["y"][1] = inp["mv"]  # the placeholder occurs in the data (other values may coincide with it too)
        elif w.startswith("imputer"):
            mask = [bool(ctx.fresh_bool("nan%d" % i)) for i in range(n)]
            if all(mask):
                ctx.assume(False)
            inp["y"] = [float("nan") if m else v for v, m in zip(inp["y"], mask)]
        if w == "naive-drift-failing-predict":
            if n != 5:
                ctx.assume(False)
            inp["y"][1] = float("nan")
        if w == "deseasonalizer":
            inp["sigma"] = fresh_reals(ctx, "sig", 2)
        if w == "hampel":
            inp["n_sigma"] = ctx.fresh_real("n_sigma")
            ctx.assume(inp["n_sigma"] > 0)
        return inp

    # ------------------------------------------------------------------
    def _snapshot(self, est):
        snap = {}
        for k, v in sorted(vars(est).items()):
            if k == "_fh":
                continue  # the horizon passed to the latest predict is remembered by design
            if hasattr(v, "values") and hasattr(v, "index"):
                snap[k] = ["series", L(v.index), L(v.values) if getattr(v, "ndim", 1) == 1 else [L(r) for r in L(v.values)]]
            elif hasattr(v, "shape") and hasattr(v, "tolist"):
                snap[k] = ["array", L(v) if getattr(v, "ndim", 1) >= 1 else S(v)]
            elif isinstance(v, (int, float, str, bool, type(None))) or is_sym(v):
                snap[k] = ["scalar", v]
            else:
                snap[k] = ["object", id(v)]
        return snap

    def scenario(self, W, inp, cell):
        warnings.simplefilter("ignore")
        self._curW = W
        if cell["kind"] == "pt":
            return self._panel(W, inp, cell)
        np, pd = W.np, W.pd
        w = cell["which"]
        hold = self.__dict__.setdefault("_hold", {})
        hold[W.kind] = {"W": W, "sigma": inp.get("sigma")}
        s0, n = inp["s0"], len(inp["y"])
        log = []

        def ser(vals, start, rng=True):
            idx = pd.RangeIndex(start, start + len(vals)) if rng else pd.Index([start + i for i in range(len(vals))])
            return pd.Series(list(vals), index=idx)

        y = ser(inp["y"], s0, rng=(w != "sm-adapter"))
        out = {}

        def pack(s):
            if hasattr(s, "index"):
                return [L(s.index), L(s.values)]
            return [None, L(s)]

        if cell["kind"] == "st":
            T, _ = make_transformer(W, log)
            if w == "hampel":
                t = W.load("sktime.transformations.series.outlier_detection").HampelFilter(window_length=3, n_sigma=inp["n_sigma"], k=1)
            elif w == "imputer-placeholder":
                t = W.load("sktime.transformations.series.impute").Imputer(method="mean", missing_values=inp["mv"])
            elif w.startswith("imputer"):
                t = W.load("sktime.transformations.series.impute").Imputer(method=w.split("-")[1])
            elif w == "log":
                t = W.load("sktime.transformations.series.boxcox").LogTransformer()
            elif w == "detrender":
                t = W.load("sktime.transformations.series.detrend._detrend").Detrender()
            elif w == "deseasonalizer":
                t = W.load("sktime.transformations.series.detrend._deseasonalize").Deseasonalizer(sp=2)
            elif w == "passthrough":
                t = W.load("sktime.transformations.series.compose").OptionalPassthrough(T(tag=1))
            else:
                t = W.load("sktime.transformations.series.cos").CosineTransformer()
            t.fit(y)
            out["y_after_fit"] = pack(y)
            z = y if (w == "hampel" or w.startswith("imputer")) else ser(inp["z"], s0 + n)
            zin = pack(z)
            before = self._snapshot(t)
            r1 = t.transform(z)
            out["z_after"] = pack(z)
            out["z_in"] = zin
            out["r1"] = pack(r1)
            mid = self._snapshot(t)
            r2 = t.transform(z)
            out["r2"] = pack(r2)
            if hasattr(t, "inverse_transform") and w in ("log", "detrender", "deseasonalizer", "passthrough"):
                rin = pack(r1)
                t.inverse_transform(r1)
                out["r1_after_inverse"] = pack(r1)
                out["r1_in"] = rin
                r3 = t.transform(z)
                out["r3"] = pack(r3)
            out["state"] = [before, mid, self._snapshot(t)]
            return out
        # forecasters
        NF = W.load("sktime.forecasting.naive").NaiveForecaster
        Member = make_member(W, log)
        if w == "naive-drift-failing-predict":
            # an in-sample predict that raises part-way (a window bounded by the missing value) must leave the forecaster as it was
            f = NF("drift", window_length=3)
            f.fit(y)
            p1 = f.predict(np.array([1, 2]))
            before = self._snapshot(f)
            try:
                f.predict(np.array([-2, -1]))
                out["failing_predict_raised"] = False
            except ValueError:
                out["failing_predict_raised"] = True
            mid = self._snapshot(f)
            try:
                p2 = pack(f.predict(np.array([1, 2])))
            except ValueError:
                p2 = [["raised"], ["ValueError"]]
            out["y_after_fit"] = pack(y)
            out["r1"], out["r2"] = pack(p1), p2
            out["state"] = [before, mid, self._snapshot(f)]
            return out
        if w.startswith("naive"):
            f = NF(w.split("-")[1], window_length=3 if w == "naive-mean" else None)
        elif w == "poly":
            f = W.load("sktime.forecasting.trend").PolynomialTrendForecaster(degree=1)
        elif w == "sm-adapter":
            ad = W.load("sktime.forecasting.base.adapters._statsmodels")

            class Res:
                def __init__(self, first):
                    self.first = first

                def predict(self, start, end):
                    m = int(end - start) + 1
                    return pd.Series([W.uf("sm_forecast", [start + i], "i>r") for i in range(m)], index=pd.RangeIndex(self.first + start, self.first + end + 1))

            class Stub(ad._StatsModelsAdapter):
                def _fit_forecaster(self, y_train, X_train=None):
                    self._fitted_forecaster = Res(y_train.index[0])

            f = Stub()
        elif w == "reduce-recursive":
            from sklearn.base import BaseEstimator, RegressorMixin

            class Reg(RegressorMixin, BaseEstimator):
                def fit(self, X, y):
                    return self

                def predict(self, X):
                    flat = []
                    for row in L(X):
                        flat.extend(row)
                    return np.array([W.uf("reg_%d" % len(flat), flat, "r" * len(flat) + ">r")])

            f = W.load("sktime.forecasting.compose._reduce").make_reduction(Reg(), window_length=2)
        elif w == "ensemble":
            f = W.load("sktime.forecasting.compose._ensemble").EnsembleForecaster([("a", NF()), ("b", Member(p=1))])
        else:
            T, _ = make_transformer(W, log)
            f = W.load("sktime.forecasting.compose._pipeline").TransformedTargetForecaster([("t", T(tag=1)), ("f", NF())])
        yin = pack(y)
        yin_type = type(y.index).__name__
        fh = np.array([1, 2])
        f.fit(y, fh=fh)
        out["y_after_fit"] = pack(y)
        out["y_in"] = yin
        norm = lambda t: "IntIndex" if t in ("Index", "Int64Index") else t  # noqa  (pandas 2 has no Int64Index class)
        out["index_type"] = [norm(yin_type), norm(type(y.index).__name__)]
        before = self._snapshot(f)
        p1 = f.predict()
        mid = self._snapshot(f)
        p2 = f.predict()
        out["r1"], out["r2"] = pack(p1), pack(p2)
        out["y_after_predict"] = pack(y)
        out["state"] = [before, mid, self._snapshot(f)]
        return out

    def _panel(self, W, inp, cell):
        import numpy as np
        import pandas as pd

        w = {"interval": "interval-int"}.get(cell["which"], cell["which"])
        c14 = _c14.HARNESS
        X, sym = c14._nested(inp["x"])
        worlds.TOKEN_MODE[0] = sym
        try:
            before = _c14.cells_of(X)
            r1 = c14._panel(W, X, inp, {"kind": w}, sym)
            after = _c14.cells_of(X)
            r2 = c14._panel(W, X, inp, {"kind": w}, sym)
            return {"before": before, "after": after, "r1": {k: v for k, v in r1.items() if k != "back"}, "r2": {k: v for k, v in r2.items() if k != "back"}}
        finally:
            worlds.TOKEN_MODE[0] = False

    # ------------------------------------------------------------------
    def _same_tree(self, P, label, a, b, detail=None):
        if isinstance(a, dict) and isinstance(b, dict):
            P.check(label, sorted(a) == sorted(b), detail)
            for k in a:
                if k in b:
                    self._same_tree(P, label, a[k], b[k], dict(detail or {}, key=str(k)))
            return
        if isinstance(a, (list, tuple)) and isinstance(b, (list, tuple)):
            P.check(label, len(a) == len(b), detail)
            for x, y in zip(a, b):
                self._same_tree(P, label, x, y, detail)
            return
        if is_nan(a) or is_nan(b):
            P.check(label, is_nan(a) and is_nan(b), detail)
            return
        if isinstance(a, (str, type(None), bool)) or isinstance(b, (str, type(None), bool)):
            P.check(label, a == b, detail)
            return
        P.eq(label, a, b, detail)

    def oracle(self, P, inp, out, cell):
        d = {"estimator": cell["which"]}
        if cell["kind"] == "pt":
            self._same_tree(P, "apply-leaves-caller-data-unchanged", out["after"], out["before"], d)
            self._same_tree(P, "repeated-apply-same-result", out["r2"], out["r1"], d)
            return
        s0 = inp["s0"]
        n = len(inp["y"])
        yi, yv = out["y_after_fit"]
        P.check("fit-leaves-caller-data-unchanged", len(yv) == n, d)
        for i in range(min(n, len(yv))):
            self._same_tree(P, "fit-leaves-caller-data-unchanged", yv[i], inp["y"][i], d)
            P.eq("fit-leaves-caller-data-unchanged", yi[i], s0 + i, d)
        if "index_type" in out:
            P.check("fit-leaves-caller-data-unchanged", out["index_type"][0] == out["index_type"][1], dict(d, index_type=out["index_type"]))
            self._same_tree(P, "apply-leaves-caller-data-unchanged", out["y_after_predict"], out["y_in"], d)
        if "z_in" in out:
            self._same_tree(P, "apply-leaves-caller-data-unchanged", out["z_after"], out["z_in"], d)
        if "r1_in" in out:
            self._same_tree(P, "apply-leaves-caller-data-unchanged", out["r1_after_inverse"], out["r1_in"], d)
            self._same_tree(P, "repeated-apply-same-result", out["r3"], out["r1"], d)
        self._same_tree(P, "repeated-apply-same-result", out["r2"], out["r1"], d)
        b, m, a = out["state"]
        self._same_tree(P, "apply-leaves-estimator-unchanged", m, b, d)
        self._same_tree(P, "apply-leaves-estimator-unchanged", a, b, d)

    def comparable(self, out, cell):
        def strip(t):
            if isinstance(t, dict):
                return {k: strip(v) for k, v in t.items()}
            if isinstance(t, list):
                if len(t) == 2 and t[0] == "object":
                    return ["object", 0]
                return [strip(v) for v in t]
            return t

        o = strip(out)
        if cell["which"] in ("log", "cosine"):
            return {"y_after_fit": o.get("y_after_fit")}
        return o

    def signature(self, label, inp, cell, detail=None):
        return "%s/%s" % (cell["name"], label)


HARNESS = C12()
