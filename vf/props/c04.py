"""C04 -- every estimator obeys the scikit-learn protocol: parameters, clone, fitted state."""
import inspect
import os
import signal
import time
import types
import warnings

from ..runner import Harness
from ..hutil import L, S
from .. import worlds
from ..symx import is_sym, SInt, SReal, SBool

NCHUNK = 10
SKIP_DIRS = ("/tests", "contrib", "__check_build", "_build_utils")
APPLY = ("predict", "predict_proba", "transform", "inverse_transform", "update", "update_predict", "update_predict_single", "score")


class Tok:
    """opaque constructor argument: may only be stored and compared by identity"""

    def __init__(self, name):
        self.name = name

    def __repr__(self):
        return "<tok %s>" % self.name

    def __deepcopy__(self, memo):
        return self

    def __copy__(self):
        return self


def numba_stub():
    def ident(*a, **k):
        if len(a) == 1 and callable(a[0]) and not k:
            return a[0]
        return lambda f: f

    nb = types.ModuleType("numba")
    for n in ("njit", "jit", "vectorize", "guvectorize", "generated_jit"):
        setattr(nb, n, ident)
    nb.prange = range
    nb.typed = types.SimpleNamespace(List=list, Dict=dict)
    nb.types = types.SimpleNamespace()
    nb.core = types.SimpleNamespace()
    for n in ("int64", "int32", "int16", "uint8", "uint32", "uint64"):
        setattr(nb, n, int)
    nb.float64 = float
    nb.float32 = float
    nb.boolean = bool
    nb.optional = lambda x: x
    nb.literally = lambda x: x
    return nb


def discover(W):
    """-> (classes {(module, name): cls}, modules that did not load)"""
    from sklearn.base import BaseEstimator

    root = os.path.join(W.world.repo, "sktime")
    mods = []
    for dp, dn, fn in os.walk(root):
        if any(s in dp for s in SKIP_DIRS):
            continue
        for f in fn:
            if f.endswith(".py") and f not in ("setup.py", "conftest.py"):
                rel = os.path.relpath(os.path.join(dp, f), W.world.repo)[:-3].replace(os.sep, ".")
                if rel.endswith(".__init__"):
                    rel = rel[:-9]
                mods.append(rel)
    bad = []
    classes = {}
    for m in sorted(mods):
        try:
            W.load(m)
        except BaseException as e:  # noqa
            bad.append("%s (%s: %s)" % (m, type(e).__name__, str(e)[:60]))
            continue
        mod = W.world.mods.get(m)
        if mod is None:
            continue
        for n, c in vars(mod).items():
            if inspect.isclass(c) and issubclass(c, BaseEstimator) and c.__module__ == m and not n.startswith("_") and not n.startswith("Base"):
                classes[(m, n)] = c
    return classes, bad


FIT_BUDGET_S = 3


class _FitTimeout(Exception):
    pass


def _always(y, sp):
    return True


def _never(y, sp):
    return False


class C04(Harness):
    pid = "C04"
    labels = (
        "ctor-stores-argument-unchanged",
        "get_params-returns-what-was-passed",
        "clone-equal-params",
        "set_params-roundtrip",
        "unknown-param-rejected",
        "fresh-and-cloned-not-fitted",
        "apply-before-fit-raises-NotFittedError",
        "nested-param-read-write",
        "component-replaced-by-name",
        "fit-returns-self-and-sets-fitted",
        "fit-leaves-params-unchanged",
    )
    stubs = (
        "constructor arguments: int / float / bool defaults -> fresh symbolic SInt / SReal / SBool; everything else -> an opaque token that may only be stored and compared by identity",
        "numba := identity decorators (constructor contract only)",
        "the real scikit-learn BaseEstimator.get_params / set_params / clone",
    )
    assumptions = ("component names of composites are concrete", "classes whose module cannot be imported in the sandbox are listed under coverage.extra as not reached")
    outside = ("modules needing cython extensions, catch22, tsfresh, pmdarima, tbats, fbprophet, stumpy (listed in the evidence)", "behaviour of fit for estimators outside the reach of C03 / C13")
    max_validate_quick = 4

    def bounds(self, tier):
        return {"constructions_per_class": "symbolic numerics (ints in -1..6, reals in [-2, 2], to bound concretisation inside constructors that compute) + tokens, and all-token", "chunks": NCHUNK, "nesting_depth": 2}

    def cells(self, tier):
        out = [{"name": "ctor-%02d" % i, "kind": "ctor", "chunk": i, "cost": 3} for i in range(NCHUNK)]
        out.append({"name": "composites", "kind": "composites", "cost": 2})
        out.append({"name": "unfitted-apply", "kind": "unfitted", "cost": 4})
        out.append({"name": "fit-protocol", "kind": "fit", "cost": 2})
        return out

    def make_world(self, kind, cell):
        W = self.__dict__.get("_W")
        if W is None:
            warnings.simplefilter("ignore")
            W = worlds.make_conc_world({"numba": numba_stub()})
            self._W = W
            self._classes, self._bad = discover(W)
        return W

    # ------------------------------------------------------------------
    def _params(self, cls):
        try:
            sig = inspect.signature(cls.__init__)
        except (TypeError, ValueError):
            return None
        ps = [p for p in sig.parameters.values() if p.name != "self"]
        if any(p.kind == p.VAR_POSITIONAL for p in ps):
            return None
        if any(p.kind == p.VAR_KEYWORD for p in ps):
            # keyword arguments handed on to a parent constructor are constructor arguments all the same: the named
            # parameters of the nearest base class with an explicit signature stand for them
            own = [p for p in ps if p.kind != p.VAR_KEYWORD]
            for base in cls.__mro__[1:]:
                try:
                    bps = [p for p in inspect.signature(base.__init__).parameters.values() if p.name != "self"]
                except (TypeError, ValueError):
                    continue
                if base is object or any(p.kind in (p.VAR_POSITIONAL, p.VAR_KEYWORD) for p in bps):
                    continue
                extra = [p for p in bps if p.name not in {q.name for q in own}]
                if extra:
                    return own + extra
                break
            return None
        return ps

    def inputs(self, ctx, cell):
        self.make_world("sym", cell)
        if cell["kind"] != "ctor":
            return {"v": ctx.fresh_int("v"), "w": ctx.fresh_real("w")}
        keys = sorted(self._classes)
        mine = [k for i, k in enumerate(keys) if i % NCHUNK == cell["chunk"]]
        ci = ctx.fresh_int("class_index")
        ctx.assume((ci >= 0) & (ci < len(mine)))
        ci = int(ci)  # one family of paths per class
        inp = {"class_index": ci}
        (m, n) = mine[ci]
        ps = self._params(self._classes[(m, n)]) or []
        for p in ps:
            d = p.default
            nm = "%s.%s.%s" % (m.rsplit(".", 1)[-1], n, p.name)
            if isinstance(d, bool):
                inp[nm] = ctx.fresh_bool(nm)
            elif isinstance(d, int):
                inp[nm] = ctx.fresh_int(nm)
                ctx.assume((inp[nm] >= -1) & (inp[nm] <= 6))
            elif isinstance(d, float):
                inp[nm] = ctx.fresh_real(nm)
                ctx.assume((inp[nm] >= -2) & (inp[nm] <= 2))
        return inp

    # ------------------------------------------------------------------
    def _typed_stub(self, W, name):
        NF = W.load("sktime.forecasting.naive").NaiveForecaster
        from sklearn.dummy import DummyRegressor, DummyClassifier
        from sklearn.preprocessing import StandardScaler

        if name in ("forecasters",):
            return [("a", NF()), ("b", NF("mean"))]
        if name == "steps":
            return [("f", NF())]
        if name in ("forecaster",):
            return NF()
        if name in ("regressor", "final_regressor"):
            return DummyRegressor()
        if name in ("estimator", "base_estimator"):
            return DummyClassifier()
        if name in ("estimators",):
            return [("a", DummyClassifier(), [0])]
        if name in ("transformer", "transformers"):
            return StandardScaler()
        if name == "cv":
            return W.load("sktime.forecasting.model_selection._split").SlidingWindowSplitter()
        if name in ("param_grid", "param_distributions"):
            return {"strategy": ["last"]}
        return None

    def scenario(self, W, inp, cell):
        warnings.simplefilter("ignore")
        self._curW = W
        k = cell["kind"]
        if k == "ctor":
            return self._ctor(W, inp, cell)
        if k == "composites":
            return self._composites(W, inp)
        if k == "unfitted":
            return self._unfitted(W)
        return self._fit(W)

    def _ctor(self, W, inp, cell):
        from sklearn.base import clone

        keys = sorted(self._classes)
        mine = [k for i, k in enumerate(keys) if i % NCHUNK == cell["chunk"]]
        out = {}
        reached, skipped = [], []
        for (m, n) in [mine[inp["class_index"]]]:
            cls = self._classes[(m, n)]
            ps = self._params(cls)
            cname = "%s.%s" % (m.rsplit(".", 1)[-1], n)
            if ps is None:
                skipped.append(cname + " (*args/**kwargs constructor)")
                continue
            recs = []
            # besides the two all-argument constructions: None for one optional argument at a time, everything else
            # at its default (a constructor that validates and refuses the None is skipped)
            none_modes = ["none:" + p.name for p in ps if p.default is not inspect._empty and p.default is not None][:8]
            for mode in ["numeric", "tokens"] + none_modes:
                kwargs = {}
                for p in ps:
                    nm = "%s.%s" % (cname, p.name)
                    if mode.startswith("none:"):
                        if p.default is inspect._empty:
                            st = self._typed_stub(W, p.name)
                            kwargs[p.name] = st if st is not None else Tok(p.name)
                        elif p.name == mode[5:]:
                            kwargs[p.name] = None
                    elif mode == "numeric":
                        if nm in inp:
                            kwargs[p.name] = inp[nm]
                        elif p.default is inspect._empty:
                            st = self._typed_stub(W, p.name) if p.name in ("forecasters", "steps", "estimators") else None
                            kwargs[p.name] = st if st is not None else Tok(p.name)
                    else:
                        # component lists must at least be iterable name/estimator pairs
                        st = self._typed_stub(W, p.name) if p.name in ("forecasters", "steps", "estimators") else None
                        kwargs[p.name] = st if st is not None else Tok(p.name)
                est = None
                try:
                    est = cls(**kwargs)
                except Exception as e:  # noqa
                    # constructor-side validation: retry required arguments with typed stand-ins
                    kw2 = dict(kwargs)
                    changed = False
                    for p in ps:
                        if isinstance(kw2.get(p.name), Tok):
                            st = self._typed_stub(W, p.name)
                            if st is not None and (mode == "numeric" or p.default is inspect._empty):
                                kw2[p.name] = st
                                changed = True
                    if mode.startswith("none:"):
                        recs.append({"mode": mode, "constructed": False, "exc": type(e).__name__})
                        continue
                    if changed:
                        try:
                            est = cls(**kw2)
                            kwargs = kw2
                        except Exception as e2:  # noqa
                            recs.append({"mode": mode, "constructed": False, "exc": type(e2).__name__})
                            continue
                    else:
                        recs.append({"mode": mode, "constructed": False, "exc": type(e).__name__})
                        continue
                rec = {"mode": mode, "constructed": True, "stored": {}, "getp": {}}
                try:
                    gp = est.get_params(deep=False)
                except Exception as e:  # noqa
                    gp = None
                    rec["getp_exc"] = type(e).__name__
                for p in ps:
                    if p.name not in kwargs:
                        continue
                    v = kwargs[p.name]
                    a = getattr(est, p.name, Tok("<missing>"))
                    rec["stored"][p.name] = self._same(a, v)
                    if gp is not None:
                        rec["getp"][p.name] = self._same(gp.get(p.name, Tok("<missing>")), v)
                try:
                    c = clone(est)
                    cp = c.get_params(deep=False)
                    rec["clone"] = {q: self._same(cp.get(q), kwargs[q]) for q in kwargs}
                    rec["clone_type"] = type(c) is type(est)
                    try:
                        rec["clone_fitted"] = bool(c.is_fitted) if hasattr(type(c), "is_fitted") else False
                    except Exception as e:  # noqa
                        rec["clone_fitted"] = "raised:%s" % type(e).__name__
                except Exception as e:  # noqa
                    rec["clone"] = "raised:%s" % type(e).__name__
                try:
                    r = est.set_params(**est.get_params(deep=False))
                    gp2 = est.get_params(deep=False)
                    rec["setp"] = {q: self._same(gp2.get(q), kwargs[q]) for q in kwargs}
                    rec["setp_self"] = r is est
                except Exception as e:  # noqa
                    rec["setp"] = "raised:%s" % type(e).__name__
                try:
                    est.set_params(zz_no_such_parameter=1)
                    rec["unknown"] = "accepted"
                except ValueError:
                    rec["unknown"] = "ValueError"
                except Exception as e:  # noqa
                    # (building the error message reprs the estimator; sktime's splitter repr needs a private scikit-learn
                    #  helper that the installed version no longer has: that is the sandbox, not the estimator)
                    rec["unknown"] = "ValueError" if "missing external symbol" in str(e) else "other:%s" % type(e).__name__
                try:
                    rec["fitted"] = bool(est.is_fitted) if hasattr(type(est), "is_fitted") else False
                except Exception as e:  # noqa
                    rec["fitted"] = "raised:%s" % type(e).__name__
                recs.append(rec)
            out[cname] = recs
            reached.append(cname)
        ex = self.__dict__.setdefault("_extra", {}).setdefault(cell["name"], {"classes_reached": [], "skipped": [], "modules_not_loaded": self._bad if cell["chunk"] == 0 else "see ctor-00"})
        for c in reached:
            if c not in ex["classes_reached"]:
                ex["classes_reached"].append(c)
        for c in skipped:
            if c not in ex["skipped"]:
                ex["skipped"].append(c)
        return out

    @staticmethod
    def _same(a, v):
        """identity for tokens / objects, the value itself for symbolic or numeric arguments"""
        if is_sym(v) or isinstance(v, (int, float, bool)):
            if is_sym(a) or isinstance(a, (int, float, bool)):
                return ["num", a, v]
            return ["bad", repr(a)[:40]]
        if isinstance(v, list) and isinstance(a, list) and a is not v:
            # component lists are cloned element-wise: same names, same component types
            return ["id", len(a) == len(v) and all(x[0] == y[0] and type(x[1]) is type(y[1]) for x, y in zip(a, v))]
        if hasattr(v, "get_params") and a is not v:
            return ["id", type(a) is type(v)]
        if isinstance(v, dict) and isinstance(a, dict):
            return ["id", a == v]
        if a is not v and type(a) is type(v) and hasattr(v, "__dict__") and type(v).__module__.startswith("sktime."):
            return ["id", repr(sorted(vars(a).items())) == repr(sorted(vars(v).items()))]  # a copied splitter etc.: same state
        return ["id", a is v]

    @staticmethod
    def _deep_missing(est):
        """keys component__param that the deep listing should contain but does not (or lists with another value)"""
        deep = est.get_params(deep=True)
        comps = {}
        for k, val in est.get_params(deep=False).items():
            if hasattr(val, "get_params") and not isinstance(val, type):
                comps[k] = val
            elif isinstance(val, list) and val and all(isinstance(t, tuple) and len(t) >= 2 and isinstance(t[0], str) for t in val):
                for t in val:
                    if hasattr(t[1], "get_params"):
                        comps[t[0]] = t[1]
        bad = []
        for cn, c in comps.items():
            if deep.get(cn) is not c:
                bad.append(cn)
            for sk, sv in c.get_params(deep=True).items():
                key = "%s__%s" % (cn, sk)
                if key not in deep:
                    bad.append(key)
                elif deep[key] is not sv and not (is_sym(sv) or isinstance(sv, (int, float, str, bool, type(None), list, tuple, dict))):
                    bad.append(key + "(other object)")
        return sorted(bad)

    def _composites(self, W, inp):
        NF = W.load("sktime.forecasting.naive").NaiveForecaster
        ENS = W.load("sktime.forecasting.compose._ensemble").EnsembleForecaster
        PIPE = W.load("sktime.forecasting.compose._pipeline").TransformedTargetForecaster
        MUX = W.load("sktime.forecasting.compose._multiplexer").MultiplexForecaster
        STK = W.load("sktime.forecasting.compose._stack").StackingForecaster
        DES = W.load("sktime.transformations.series.detrend._deseasonalize").Deseasonalizer
        tune = W.load("sktime.forecasting.model_selection._tune")
        sp = W.load("sktime.forecasting.model_selection._split")
        CE = W.load("sktime.classification.compose._column_ensemble").ColumnEnsembleClassifier
        from sklearn.dummy import DummyRegressor, DummyClassifier

        v, w = inp["v"], inp["w"]
        out = {}

        def probe(name, est, comp, param, attr_list):
            r = {}
            est.set_params(**{"%s__%s" % (comp, param): v})
            inner = dict((n, e) for n, e, *_ in getattr(est, attr_list))[comp]
            r["written"] = self._same(getattr(inner, param), v)
            r["read"] = self._same(est.get_params(deep=True)["%s__%s" % (comp, param)], v)
            new = NF("drift", window_length=v)
            est.set_params(**{comp: new})
            items = getattr(est, attr_list)
            r["replaced"] = [n for n, e, *_ in items if e is new] == [comp]
            r["others_kept"] = len(items)
            r["nested_after_replace"] = self._same(est.get_params(deep=True)["%s__window_length" % comp], v)
            # ... and the replacement together with a nested parameter of it, in ONE call (the replacement comes first)
            new2 = NF("mean")
            est.set_params(**{comp: new2, "%s__window_length" % comp: v})
            r["combined"] = self._same(new2.window_length, v)
            try:
                est.set_params(**{"%s__no_such" % comp: 1})
                r["unknown_nested"] = "accepted"
            except ValueError:
                r["unknown_nested"] = "ValueError"
            except Exception as e:  # noqa
                r["unknown_nested"] = "other:%s" % type(e).__name__
            out[name] = r

        probe("ensemble", ENS([("a", NF()), ("b", NF("mean"))]), "b", "window_length", "forecasters")
        probe("multiplexer", MUX([("a", NF()), ("b", NF("mean"))], selected_forecaster="a"), "a", "window_length", "forecasters")
        probe("stacking", STK([("a", NF()), ("b", NF("mean"))], final_regressor=DummyRegressor()), "a", "window_length", "forecasters")
        probe("pipeline", PIPE([("t", DES()), ("f", NF())]), "f", "window_length", "steps")
        # nesting depth 2: pipeline inside ensemble, tuner around pipeline
        e2 = ENS([("p", PIPE([("t", DES()), ("f", NF())])), ("b", NF())])
        e2.set_params(p__f__window_length=v)
        out["depth2"] = {"written": self._same(dict(e2.forecasters)["p"].steps[-1][1].window_length, v), "read": self._same(e2.get_params()["p__f__window_length"], v)}
        gs = tune.ForecastingGridSearchCV(PIPE([("t", DES()), ("f", NF())]), sp.SlidingWindowSplitter(), {"f__strategy": ["last"]})
        gs.set_params(forecaster__f__window_length=v)
        out["tuner"] = {"written": self._same(gs.forecaster.steps[-1][1].window_length, v), "read": self._same(gs.get_params()["forecaster__f__window_length"], v)}
        # whole list replacement happens before component / nested parameters
        e3 = ENS([("a", NF())])
        e3.set_params(forecasters=[("x", NF()), ("y", NF("mean"))], y__window_length=v)
        out["order"] = {"names": [n for n, _ in e3.forecasters], "written": self._same(dict(e3.forecasters)["y"].window_length, v)}
        e4 = ENS([("a", NF())])
        newy = NF("drift", window_length=v)
        e4.set_params(forecasters=[("x", NF()), ("y", NF("mean"))], y=newy)
        out["order_replace"] = {"names": [n for n, _ in e4.forecasters], "replaced": [n for n, e in e4.forecasters if e is newy] == ["y"], "others_kept": 2,
                                "nested_after_replace": self._same(dict(e4.forecasters)["y"].window_length, v), "written": ["id", not hasattr(e4, "y")], "unknown_nested": "ValueError"}
        e5 = ENS([("a", NF()), ("b", NF())])
        try:
            e5.set_params(forecasters=[("x", NF()), ("y", NF("mean"))], a=NF("drift"))
            stale = "accepted"
        except ValueError:
            stale = "ValueError"
        except Exception as e:  # noqa
            stale = "other:%s" % type(e).__name__
        out["stale_name"] = {"written": ["id", True], "unknown_nested": stale, "replaced": True, "others_kept": 2, "nested_after_replace": ["id", True]}
        # estimator-valued constructor arguments outside the named list: nested read and write, and the deep
        # parameter listing is closed under "component__param" for every component (named or not)
        stk = STK([("a", NF()), ("b", NF("mean"))], final_regressor=DummyRegressor(strategy="constant", constant=w))
        stk.set_params(final_regressor__constant=v)
        out["stacking_final"] = {"written": self._same(stk.final_regressor.constant, v), "read": self._same(stk.get_params().get("final_regressor__constant", "<no such key>"), v)}
        cer = CE([("c0", DummyClassifier(), [0])], remainder=DummyClassifier(strategy="constant", constant=w))
        cer.set_params(remainder__constant=v)
        out["column_ensemble_remainder"] = {"written": self._same(cer.remainder.constant, v), "read": self._same(cer.get_params().get("remainder__constant", "<no such key>"), v)}
        for nm, est in (("ensemble", ENS([("a", NF()), ("b", NF("mean"))])), ("multiplexer", MUX([("a", NF()), ("b", NF("mean"))], selected_forecaster="a")),
                        ("stacking", stk), ("pipeline", PIPE([("t", DES()), ("f", NF())])), ("depth2", e2), ("tuner", gs), ("column_ensemble", cer)):
            out["closed_" + nm] = {"written": ["id", True], "missing": self._deep_missing(est)}
        # replacement by name in the column ensemble (its component list is a computed view), and no aliasing between
        # two composites built from the same list object
        ce2 = CE([("c0", DummyClassifier(), [0]), ("c1", DummyClassifier(), [0])])
        newc = DummyClassifier(strategy="constant", constant=v)
        ce2.set_params(c1=newc)
        out["column_ensemble_replace"] = {"written": ["id", ce2.estimators[1][1] is newc and ce2.get_params()["c1"] is newc], "replaced": ce2.estimators[1][1] is newc, "others_kept": 2 if ce2.estimators[0][0] == "c0" and len(ce2.estimators) == 2 else 0,
                                          "nested_after_replace": self._same(ce2.get_params().get("c1__constant", "<no such key>"), v), "unknown_nested": "ValueError"}
        # a 'drop' placeholder is a component like any other: listed, and kept when another component is replaced by name
        ce3 = CE([("a", "drop", [0]), ("b", DummyClassifier(), [0]), ("c", DummyClassifier(), [0])])
        gp3 = ce3.get_params()
        newb = DummyClassifier(strategy="constant", constant=v)
        ce3.set_params(b=newb)
        names3 = [n_ for n_, _, _ in ce3.estimators]
        out["column_ensemble_drop"] = {"written": ["id", "a" in gp3 and gp3.get("a") == "drop"], "replaced": names3 == ["a", "b", "c"] and ce3.estimators[1][1] is newb and ce3.estimators[0][1] == "drop", "others_kept": 2 if len(ce3.estimators) == 3 else 0,
                                       "nested_after_replace": self._same(ce3.get_params().get("b__constant", "<no such key>"), v), "unknown_nested": "ValueError"}
        shared = [("a", NF()), ("b", NF("mean"))]
        first, second = shared[0][1], shared[1][1]
        ea, eb = ENS(shared), ENS(shared)
        ea.set_params(b=NF("drift"))
        out["no_aliasing"] = {"written": ["id", dict(eb.forecasters)["b"] is second and shared[1][1] is second and shared[0][1] is first and dict(ea.forecasters)["b"] is not second]}
        ce = CE([("c0", DummyClassifier(), [0]), ("c1", DummyClassifier(), [0])])
        try:
            ce.set_params(c1__random_state=v)
            out["column_ensemble"] = {"written": self._same(ce.estimators[1][1].random_state, v), "read": self._same(ce.get_params()["c1__random_state"], v)}
        except Exception as e:  # noqa
            out["column_ensemble"] = {"raised": type(e).__name__}
        return out

    # -- apply-type methods before fit ------------------------------------------------------------
    def _data(self, W):
        import numpy as np
        import pandas as pd

        y = pd.Series(np.arange(12, dtype=float) + 1.0)
        Xp = pd.DataFrame({"dim_0": [pd.Series(np.arange(8, dtype=float) + i) for i in range(4)]})
        yp = np.array([0, 1, 0, 1])
        return y, Xp, yp

    def _unfitted(self, W):
        from sklearn.base import clone

        NFE = W.load("sktime.exceptions").NotFittedError
        BF = W.load("sktime.forecasting.base._base").BaseForecaster
        TB = W.load("sktime.transformations.base")
        BC = W.load("sktime.classification.base").BaseClassifier
        BR = W.load("sktime.regression.base").BaseRegressor
        SKB = W.load("sktime.base").BaseEstimator
        y, Xp, yp = self._data(W)
        out = {}
        listed = []
        fitted_ok = []
        for (m, n), cls in sorted(self._classes.items()):
            if not issubclass(cls, SKB):
                continue
            ps = self._params(cls)
            if ps is None:
                continue
            kw = {}
            ok = True
            for p in ps:
                if p.default is inspect._empty:
                    st = self._typed_stub(W, p.name)
                    if st is None:
                        ok = False
                    kw[p.name] = st
            if not ok:
                continue
            try:
                est = cls(**kw)
            except Exception:  # noqa
                continue
            cname = "%s.%s" % (m.rsplit(".", 1)[-1], n)
            series_like = issubclass(cls, BF) or issubclass(cls, (TB._SeriesToSeriesTransformer, TB._SeriesToPrimitivesTransformer))
            arg = y if series_like else Xp
            try:
                rec = {"fitted": bool(est.is_fitted)}
            except Exception as e:  # noqa
                rec = {"fitted": "raised:%s" % type(e).__name__}
            try:
                rec["clone_fitted"] = bool(clone(est).is_fitted)
            except Exception as e:  # noqa
                rec["clone_fitted"] = "raised:%s" % type(e).__name__
            def apply_all(est_, rec_):
                for meth in APPLY:
                    f = getattr(est_, meth, None)
                    if f is None or not callable(f):
                        continue
                    try:
                        sig = inspect.signature(f)
                        req = [p for p in sig.parameters.values() if p.default is inspect._empty and p.kind in (p.POSITIONAL_ONLY, p.POSITIONAL_OR_KEYWORD)]
                    except (TypeError, ValueError):
                        continue
                    args = []
                    for p in req:
                        if p.name in ("y", "Z", "X", "y_new", "y_test", "y_train"):
                            args.append(yp if (p.name == "y" and not series_like) else arg)
                        elif p.name == "fh":
                            args.append(1)
                        else:
                            args.append(arg)
                    if issubclass(cls, BF) and meth == "predict":
                        args = [1]
                    try:
                        f(*args)
                        rec_[meth] = "returned"
                    except NFE:
                        rec_[meth] = "NotFittedError"
                    except NotImplementedError:
                        rec_[meth] = "NotImplementedError"
                    except Exception as e:  # noqa
                        rec_[meth] = "other:%s" % type(e).__name__

            apply_all(est, rec)
            # the guard must not depend on the configuration: every Boolean option flipped, one at a time
            flips = [p for p in ps if isinstance(p.default, bool)][:4]
            for p in flips:
                try:
                    est_f = cls(**dict(kw, **{p.name: not p.default}))
                except Exception:  # noqa
                    continue
                sub = {}
                apply_all(est_f, sub)
                rec["flip:" + p.name] = sub
            # generic fit protocol: whenever fit returns (no exception), it returned the object itself and the object
            # reports fitted.  Environment failures (missing numba, removed numpy aliases, ...) are recorded, not judged.
            def _alarm(sig, frm):
                raise _FitTimeout()

            old = signal.signal(signal.SIGALRM, _alarm)
            try:
                e2 = clone(est)
                fargs = [y] if series_like else [Xp, yp]
                t0 = time.time()
                signal.alarm(FIT_BUDGET_S)
                if issubclass(cls, BF):
                    r = e2.fit(y, fh=1)
                else:
                    r = e2.fit(*fargs)
                signal.alarm(0)
                rec["fit"] = {"returns_self": r is e2, "fitted": bool(e2.is_fitted), "s": round(time.time() - t0, 2)}
                fitted_ok.append(cname)
            except BaseException as e:  # noqa
                signal.alarm(0)
                if isinstance(e, (KeyboardInterrupt, SystemExit)) or (type(e).__module__.startswith("vf.") and not isinstance(e, _FitTimeout)):
                    raise
                rec["fit"] = {"raised": type(e).__name__}
            finally:
                signal.signal(signal.SIGALRM, old)
            out[cname] = rec
            listed.append(cname)
        self.__dict__.setdefault("_extra", {})[("unfitted-apply")] = {"classes_exercised": listed, "fit_returned": fitted_ok}
        return out

    def _fit(self, W):
        import numpy as np
        import pandas as pd

        y, Xp, yp = self._data(W)
        NF = W.load("sktime.forecasting.naive").NaiveForecaster
        PT = W.load("sktime.forecasting.trend").PolynomialTrendForecaster
        ENS = W.load("sktime.forecasting.compose._ensemble").EnsembleForecaster
        PIPE = W.load("sktime.forecasting.compose._pipeline").TransformedTargetForecaster
        MUX = W.load("sktime.forecasting.compose._multiplexer").MultiplexForecaster
        DET = W.load("sktime.transformations.series.detrend._detrend").Detrender
        DES = W.load("sktime.transformations.series.detrend._deseasonalize").Deseasonalizer
        IMP = W.load("sktime.transformations.series.impute").Imputer
        CDES = W.load("sktime.transformations.series.detrend._deseasonalize").ConditionalDeseasonalizer
        HF = W.load("sktime.transformations.series.outlier_detection").HampelFilter
        LOGT = W.load("sktime.transformations.series.boxcox").LogTransformer
        red = W.load("sktime.forecasting.compose._reduce")
        from sklearn.linear_model import LinearRegression

        ests = {
            "NaiveForecaster": (NF("mean", window_length=3), "fc"),
            "PolynomialTrendForecaster": (PT(degree=1), "fc"),
            "EnsembleForecaster": (ENS([("a", NF()), ("b", NF("mean"))]), "fc"),
            "TransformedTargetForecaster": (PIPE([("t", LOGT()), ("f", NF())]), "fc"),
            "MultiplexForecaster": (MUX([("a", NF()), ("b", NF("mean"))], selected_forecaster="b"), "fc"),
            # no selection made: whether fit refuses or falls back, the parameter stays as it was passed
            "MultiplexForecaster(selected_forecaster=None)": (MUX([("a", NF()), ("b", NF("mean"))]), "fc", "may-refuse"),
            # a component name containing "__" cannot be addressed through name__param: refused at fit
            "EnsembleForecaster(component named a__b)": (ENS([("a__b", NF()), ("c", NF("mean"))]), "fc", "must-refuse"),
            "TransformedTargetForecaster(step named t__x)": (PIPE([("t__x", LOGT()), ("f", NF())]), "fc", "must-refuse"),
            "RecursiveTabularRegressionForecaster": (red.make_reduction(LinearRegression(), window_length=2), "fc"),
            "Detrender(default)": (DET(), "tr"),
            "Detrender(forecaster)": (DET(NF()), "tr"),
            "Imputer": (IMP(method="mean"), "tr"),
            "Deseasonalizer": (DES(sp=2), "tr"),
            "ConditionalDeseasonalizer(seasonal)": (CDES(seasonality_test=_always, sp=2), "tr"),
            "ConditionalDeseasonalizer(non-seasonal)": (CDES(seasonality_test=_never, sp=2), "tr"),
            "HampelFilter": (HF(window_length=3), "tr"),
            "LogTransformer": (LOGT(), "tr"),
        }
        try:
            OPT = W.load("sktime.transformations.series.compose").OptionalPassthrough
            ests["OptionalPassthrough(passthrough=False)"] = (OPT(LOGT(), passthrough=False), "tr")
            ests["OptionalPassthrough(passthrough=True)"] = (OPT(LOGT(), passthrough=True), "tr")
        except Exception as e:  # noqa
            if type(e).__module__.startswith("vf."):
                raise
        # tuners: the search selects a value that differs from the one the caller configured (the series is a line, so
        # "drift" wins over the configured "mean"); the caller's forecaster must come back as it was passed
        try:
            tune = W.load("sktime.forecasting.model_selection._tune")
            spl = W.load("sktime.forecasting.model_selection._split")
            ests["ForecastingGridSearchCV"] = (tune.ForecastingGridSearchCV(NF("mean"), spl.SingleWindowSplitter([1], window_length=6), {"strategy": ["mean", "last", "drift"]}, scoring=_AbsErr()), "fc")
            ests["ForecastingGridSearchCV(pipeline)"] = (tune.ForecastingGridSearchCV(PIPE([("t", LOGT()), ("f", NF("mean"))]), spl.SingleWindowSplitter([1], window_length=6), {"f__strategy": ["mean", "drift"]}, scoring=_AbsErr()), "fc")
            ests["ForecastingRandomizedSearchCV"] = (tune.ForecastingRandomizedSearchCV(NF("mean"), spl.SingleWindowSplitter([1], window_length=6), {"strategy": ["drift", "last"]}, n_iter=2, random_state=0, scoring=_AbsErr()), "fc")
        except Exception as e:  # noqa
            if type(e).__module__.startswith("vf."):
                raise
        out = {}

        def snap(params):
            """parameter -> identity token; component lists by the identity of every (name, component)"""
            d = {}
            for k, v in params.items():
                if isinstance(v, list):
                    d[k] = [tuple(id(x) if hasattr(x, "get_params") else x for x in item) if isinstance(item, tuple) else id(item) for item in v]
                    d[k].append(("list-object", id(v)))
                else:
                    d[k] = id(v) if not isinstance(v, (int, float, str, bool, type(None))) else v
            return d

        def snap2(est_):
            d = snap(est_.get_params(deep=False))
            # nested parameters by value (a component that is the same object but was reconfigured in place)
            for k_, v_ in est_.get_params(deep=True).items():
                if "__" in k_ and isinstance(v_, (int, float, str, bool, type(None))):
                    d[k_] = v_
            return d

        for name, spec in ests.items():
            est, kind = spec[0], spec[1]
            before = snap2(est)
            unfitted_components = [c for v in est.get_params(deep=False).values() if isinstance(v, list) for item in v if isinstance(item, tuple) for c in item if hasattr(c, "is_fitted")]
            rec = {}
            try:
                r = est.fit(y) if kind == "tr" else est.fit(y, fh=1)
                if len(spec) > 2 and spec[2] == "must-refuse":
                    raise AssertionError("accepted although it must be refused")
                rec["returns_self"] = r is est
                rec["fitted"] = bool(est.is_fitted)
                after = snap2(est)
                rec["params_same"] = sorted(k for k in before if after.get(k) != before[k])
                # the prototypes the user passed stay unfitted (fit works on clones)
                if any(getattr(c, "is_fitted", False) for c in unfitted_components):
                    rec["params_same"].append("<a component passed by the user was fitted in place>")
            except Exception as e:  # noqa
                if len(spec) > 2 and spec[2] == "must-refuse" and not isinstance(e, ValueError):
                    rec["raised"] = "%s (a ValueError was due)" % type(e).__name__
                elif len(spec) > 2 and isinstance(e, ValueError):
                    after = snap2(est)
                    rec = {"returns_self": True, "fitted": True, "refused": True, "params_same": sorted(k for k in before if after.get(k) != before[k])}
                else:
                    rec["raised"] = type(e).__name__
            out[name] = rec
        return out

    # ------------------------------------------------------------------
    def oracle(self, P, inp, out, cell):
        k = cell["kind"]

        def chk(label, r, detail):
            if not isinstance(r, list):
                P.check(label, False, detail)
            elif r[0] == "num":
                P.eq(label, r[1], r[2], detail)
            elif r[0] == "id":
                P.check(label, r[1], detail)
            else:
                P.check(label, False, dict(detail, got=r[1]))

        if k == "ctor":
            for cname, recs in out.items():
                for rec in recs:
                    if not rec["constructed"]:
                        continue
                    d = {"class": cname, "mode": rec["mode"]}
                    for p, r in rec["stored"].items():
                        chk("ctor-stores-argument-unchanged", r, dict(d, param=p))
                    P.check("get_params-returns-what-was-passed", "getp_exc" not in rec, d)
                    for p, r in rec["getp"].items():
                        chk("get_params-returns-what-was-passed", r, dict(d, param=p))
                    if isinstance(rec["clone"], str):
                        P.check("clone-equal-params", False, dict(d, clone=rec["clone"]))
                    else:
                        for p, r in rec["clone"].items():
                            chk("clone-equal-params", r, dict(d, param=p))
                        P.check("clone-equal-params", rec["clone_type"], d)
                        P.check("fresh-and-cloned-not-fitted", rec["clone_fitted"] is False and rec["fitted"] is False, dict(d, fitted=rec["fitted"]))
                    if isinstance(rec["setp"], str):
                        P.check("set_params-roundtrip", False, dict(d, setp=rec["setp"]))
                    else:
                        for p, r in rec["setp"].items():
                            chk("set_params-roundtrip", r, dict(d, param=p))
                        P.check("set_params-roundtrip", rec["setp_self"], d)
                    P.check("unknown-param-rejected", rec["unknown"] == "ValueError", dict(d, result=rec["unknown"]))
            return
        if k == "composites":
            for name, r in out.items():
                d = {"composite": name}
                if "raised" in r:
                    P.check("nested-param-read-write", False, dict(d, raised=r["raised"]))
                    continue
                chk("nested-param-read-write", r["written"], d)
                if "read" in r:
                    chk("nested-param-read-write", r["read"], d)
                if "cv" in r:
                    chk("nested-param-read-write", r["cv"], d)
                if "combined" in r:
                    chk("component-replaced-by-name", r["combined"], dict(d, what="replacement and nested parameter of it in one call"))
                if "replaced" in r:
                    P.check("component-replaced-by-name", r["replaced"] and r["others_kept"] == 2, d)
                    chk("component-replaced-by-name", r["nested_after_replace"], d)
                    P.check("unknown-param-rejected", r["unknown_nested"] == "ValueError", dict(d, result=r["unknown_nested"]))
                if "names" in r:
                    P.check("component-replaced-by-name", r["names"] == ["x", "y"], d)
                if "missing" in r:
                    P.check("nested-param-read-write", r["missing"] == [], dict(d, missing=r["missing"][:6]))
            return
        if k == "unfitted":
            for cname, rec in out.items():
                d = {"class": cname}
                P.check("fresh-and-cloned-not-fitted", rec["fitted"] is False and rec["clone_fitted"] is False, d)
                for meth in APPLY:
                    if meth in rec:
                        P.check("apply-before-fit-raises-NotFittedError", rec[meth] in ("NotFittedError", "NotImplementedError"), dict(d, method=meth, result=rec[meth]))
                for key, sub in rec.items():
                    if key.startswith("flip:"):
                        for meth, res in sub.items():
                            P.check("apply-before-fit-raises-NotFittedError", res in ("NotFittedError", "NotImplementedError"), dict(d, method=meth, result=res, option=key[5:] + " flipped"))
                fr = rec.get("fit", {})
                if "raised" not in fr and fr:
                    P.check("fit-returns-self-and-sets-fitted", fr["returns_self"] and fr["fitted"], dict(d, method="fit", rec={k2: str(v) for k2, v in fr.items()}))
            return
        for name, rec in out.items():
            d = {"estimator": name}
            P.check("fit-returns-self-and-sets-fitted", "raised" not in rec and rec.get("returns_self") and rec.get("fitted"), dict(d, rec={k2: str(v) for k2, v in rec.items()}))
            if "raised" not in rec:
                P.check("fit-leaves-params-unchanged", rec["params_same"] == [], dict(d, changed=rec["params_same"]))

    def signature(self, label, inp, cell, detail=None):
        d = detail or {}
        who = d.get("class") or d.get("composite") or d.get("estimator") or ""
        extra = d.get("method") or d.get("param") or ""
        return "%s/%s/%s" % (label, who, extra)


class _AbsErr:
    """mean absolute error as a scoring object (sktime's own metrics call a private scikit-learn helper whose signature changed)"""

    greater_is_better = False
    name = "abs_err"

    def __call__(self, y_true, y_pred):
        a, b = list(y_true.values), list(y_pred.values)
        return sum(abs(u - v) for u, v in zip(a, b)) / len(a)


HARNESS = C04()
