"""C03 -- forecasts are indexed by exactly the requested horizon from the true cutoff."""
import types

from ..runner import Harness
from ..hutil import L, S, fresh_ints, fresh_reals, increasing
from .stubs import make_member, make_transformer, make_regressor
from .c07 import make_score
from .. import msk

KINDS = [
    "naive-last", "naive-mean", "naive-drift", "naive-seasonal-last", "naive-seasonal-mean", "poly", "poly-nointercept", "sm-adapter",
    "reduce-direct", "reduce-recursive", "reduce-multioutput", "reduce-dirrec",
    "theta", "ensemble", "ensemble-window-trend", "pipeline", "pipeline-deseason", "stacking", "multiplexer", "gridsearch",
]
REQUIRED_FH = ("reduce-direct", "reduce-multioutput", "reduce-dirrec", "stacking")
SHIFTABLE = ("theta", "pipeline-deseason", "poly-nointercept", "naive-last", "naive-mean", "naive-drift", "naive-seasonal-last", "naive-seasonal-mean", "poly", "reduce-direct", "reduce-recursive", "reduce-multioutput", "reduce-dirrec")


def is_nan(x):
    return isinstance(x, float) and x != x


class C03(Harness):
    pid = "C03"
    labels = ("one-value-per-step", "index-is-cutoff-plus-fh", "index-increasing", "cutoff-after-fit", "cutoff-after-update", "finite-values", "shift-invariant-values", "shift-invariant-index", "value-independent-of-other-steps", "same-numbers-other-kind")
    stubs = (
        "regressors of the reducers := recording stub with uninterpreted outputs per fitted estimator and feature row",
        "members of composites := recording member forecasters (uninterpreted forecasts); pipeline transformer := elementwise uninterpreted pair",
        "statsmodels fitted results := stub answering predict(start, end) with uninterpreted values on the right labels",
        "PolynomialTrendForecaster's scikit-learn pipeline := exact rational least-squares model (symbolic world)",
    )
    assumptions = ("out-of-sample horizons", "series long enough for the window (seasonal: >= sp; reducers: window + max(fh) <= n)", "updates bring one or two later observations")
    outside = ("Prophet, pmdarima, TBATS/BATS, HCrystalBall, Theta / ETS numerics (statsmodels optimisers)", "datetime / period indices", "prediction intervals")

    def bounds(self, tier):
        q = tier == "quick"
        return {"n": "4..%d" % (5 if q else 7), "fh_steps": "1..2, h <= 3", "update_batch": "0..2", "forecasters": KINDS}

    def cells(self, tier):
        return [{"name": k, "kind": k, "cost": 3 if k.startswith("reduce") else 1} for k in KINDS]

    def overrides(self, kind, cell):
        if cell["kind"] == "pipeline-deseason":
            holder = self.__dict__.setdefault("_hold", {})

            def seasonal_decompose(z, model=None, period=None, filt=None, two_sided=True, extrapolate_trend=0):
                # the seasonal component of the decomposed stretch by position (sigma[i mod sp]); the labels play no role
                W = holder[kind]["W"]
                sig = holder[kind]["sigma"]
                return types.SimpleNamespace(seasonal=W.pd.Series([sig[i % len(sig)] for i in range(len(z))], index=z.index))

            return {"statsmodels.tsa.seasonal": types.SimpleNamespace(seasonal_decompose=seasonal_decompose)}
        if cell["kind"] == "theta" and kind == "sym":
            holder = self.__dict__.setdefault("_hold", {})

            def _fit_trend(x, order=0):
                # least-squares line of the values over their positions: uninterpreted slope / intercept of the values
                W = holder["theta-W"]
                vals = L(x)[0]
                sig = "r" * len(vals) + ">r"
                return W.np.array([[W.uf("ls_slope_%d" % len(vals), vals, sig), W.uf("ls_icpt_%d" % len(vals), vals, sig)]])

            return {"sktime.utils.slope_and_trend": types.SimpleNamespace(_fit_trend=_fit_trend, _slope=None)}
        if cell["kind"] in ("poly", "poly-nointercept", "ensemble-window-trend") and kind == "sym":
            return {
                "sklearn.linear_model": types.SimpleNamespace(LinearRegression=msk.LinearRegression),
                "sklearn.pipeline": types.SimpleNamespace(make_pipeline=msk.make_pipeline),
                "sklearn.preprocessing": types.SimpleNamespace(PolynomialFeatures=msk.PolynomialFeatures),
            }
        return None

    def inputs(self, ctx, cell):
        q = self._tier == "quick"
        k = cell["kind"]

        def choice(name, lo, hi):
            v = ctx.fresh_int(name)
            ctx.assume((v >= lo) & (v <= hi))
            return int(v)

        n = choice("n", 4, 5 if q else 7)
        K = choice("K", 1, 2)
        hs = fresh_ints(ctx, "h", K)
        increasing(ctx, hs, lo=1)
        ctx.assume(hs[-1] <= 3)
        nb = choice("nb", 0, 2)
        inp = {"n": n, "s0": ctx.fresh_int("s0"), "delta": ctx.fresh_int("delta"), "y": fresh_reals(ctx, "y", n), "u": fresh_reals(ctx, "u", nb), "fh": [int(h) for h in hs]}
        inp["absolute"] = bool(ctx.fresh_bool("absolute"))
        inp["as_unsorted_index"] = bool(ctx.fresh_bool("as_unsorted_index")) if K > 1 else False
        inp["range_index"] = bool(ctx.fresh_bool("range_index"))
        inp["update_params"] = (not inp["range_index"]) if nb else True  # (tied to the index kind to keep the path count)
        # without re-estimation the update may also re-send (revised) observations that end *before* the data seen so far:
        # the cutoff is the last time point of the data passed to update
        # (forecasters whose window is the whole training series cannot forecast from an earlier cutoff: left out)
        inp["resend"] = bool(nb) and not inp["update_params"] and nb < n and k not in ("naive-seasonal-mean", "naive-drift")
        if k in REQUIRED_FH:
            inp["fh_in_fit"] = True
        else:
            inp["fh_in_fit"] = bool(ctx.fresh_bool("fh_in_fit"))
        if inp["absolute"] and nb and inp["fh_in_fit"]:
            ctx.assume(False)  # an absolute horizon fixed at fit would fall in-sample after the update
        if k == "poly-nointercept":
            # (a line through the origin of the *zero-based* time axis; origin and shift bounded so that code which regresses
            #  on the time labels themselves stays decidable)
            ctx.assume((inp["s0"] >= -1) & (inp["s0"] <= 2) & (inp["delta"] >= 0) & (inp["delta"] <= 2))
        if k == "pipeline-deseason":
            inp["sigma"] = fresh_reals(ctx, "sig", 2)
            # (origin and shift in a small range: code that looks the season up from the absolute label stays decidable)
            ctx.assume((inp["s0"] >= -2) & (inp["s0"] <= 3) & (inp["delta"] >= 0) & (inp["delta"] <= 3))
        if k.startswith("reduce"):
            inp["wl"] = choice("wl", 1, 2)
            if inp["wl"] + inp["fh"][-1] > n:
                ctx.assume(False)
        return inp

    # ------------------------------------------------------------------
    def _build(self, W, k, inp, log):
        np = W.np
        NF = W.load("sktime.forecasting.naive").NaiveForecaster
        if k == "naive-last":
            return NF("last")
        if k == "naive-mean":
            return NF("mean", window_length=3)
        if k == "naive-drift":
            return NF("drift")
        if k == "naive-seasonal-last":
            return NF("last", sp=2)
        if k == "naive-seasonal-mean":
            return NF("mean", sp=2)
        if k == "poly":
            return W.load("sktime.forecasting.trend").PolynomialTrendForecaster(degree=1)
        if k == "poly-nointercept":
            return W.load("sktime.forecasting.trend").PolynomialTrendForecaster(degree=1, with_intercept=False)
        if k in ("sm-adapter", "theta"):
            ad = W.load("sktime.forecasting.base.adapters._statsmodels")
            pd = W.pd

            class Res:
                """statsmodels results contract: predict(start, end) by zero-based position, fittedvalues / nobs of the fitted sample"""

                def __init__(self, y_train):
                    self.first = y_train.index[0]
                    self.nobs = len(y_train)
                    self.fittedvalues = pd.Series(list(y_train.values), index=y_train.index)
                    self.params = {"smoothing_level": 0.5}

                def predict(self, start, end):
                    m = int(end - start) + 1
                    return pd.Series([W.uf("sm_forecast", [start + i], "i>r") for i in range(m)], index=pd.RangeIndex(self.first + start, self.first + end + 1))

            class Stub(ad._StatsModelsAdapter):
                def _fit_forecaster(self, y_train, X_train=None):
                    self._fitted_forecaster = Res(y_train)

            if k == "theta":
                # the Theta method around the same results stub: smoothing forecasts by position plus the drift term
                TF = W.load("sktime.forecasting.theta").ThetaForecaster

                class Theta(TF):
                    def _fit_forecaster(self, y_train, X_train=None):
                        self._fitted_forecaster = Res(y_train)

                self.__dict__.setdefault("_hold", {})["theta-W"] = W
                th = Theta(deseasonalize=False)
                th.__class__.__name__ = "ThetaForecaster"
                return th
            return Stub()
        Member = make_member(W, log)
        if k.startswith("reduce"):
            red = W.load("sktime.forecasting.compose._reduce")
            from sklearn.base import BaseEstimator, RegressorMixin

            counter = [0]
            K = len(inp["fh"])
            multi = k == "reduce-multioutput"

            class Reg(RegressorMixin, BaseEstimator):
                def fit(self, X, y):
                    counter[0] += 1
                    self.id_ = counter[0]
                    self.t_ = L(y)[0]  # the target of the first training row: which step this copy was trained for
                    return self

                def predict(self, X):
                    flat = []
                    for row in L(X):
                        flat.extend(row)
                    sig = "r" * len(flat) + ">r"
                    if multi:
                        return np.array([[W.uf("reg%d_o%d_%d" % (self.id_, j, len(flat)), flat, sig) for j in range(K)]])
                    return np.array([W.uf("reg%d_%d" % (self.id_, len(flat)), flat, sig)])

            return red.make_reduction(Reg(), strategy=k.split("-")[1], window_length=inp["wl"])
        if k == "ensemble":
            return W.load("sktime.forecasting.compose._ensemble").EnsembleForecaster([("a", Member(p=1)), ("b", NF("last"))])
        if k == "ensemble-window-trend":
            # a window forecaster and a trend forecaster share the one horizon object the ensemble was given
            PTF = W.load("sktime.forecasting.trend").PolynomialTrendForecaster
            return W.load("sktime.forecasting.compose._ensemble").EnsembleForecaster([("w", NF("last")), ("t", PTF(degree=1))])
        if k == "pipeline-deseason":
            self.__dict__.setdefault("_hold", {})[W.kind] = {"W": W, "sigma": inp["sigma"]}
            DES = W.load("sktime.transformations.series.detrend._deseasonalize").Deseasonalizer
            return W.load("sktime.forecasting.compose._pipeline").TransformedTargetForecaster([("d", DES(sp=2)), ("f", NF("last"))])
        if k == "pipeline":
            T, _ = make_transformer(W, log)
            return W.load("sktime.forecasting.compose._pipeline").TransformedTargetForecaster([("t", T(tag=1)), ("f", NF("last"))])
        if k == "stacking":
            Reg = make_regressor(W, log)
            return W.load("sktime.forecasting.compose._stack").StackingForecaster([("a", Member(p=1)), ("b", NF("last"))], final_regressor=Reg())
        if k == "multiplexer":
            return W.load("sktime.forecasting.compose._multiplexer").MultiplexForecaster([("a", Member(p=1)), ("b", NF("last"))], selected_forecaster="b")
        if k == "gridsearch":
            tune = W.load("sktime.forecasting.model_selection._tune")
            sp = W.load("sktime.forecasting.model_selection._split")
            cv = sp.SingleWindowSplitter(fh=1)
            return tune.ForecastingGridSearchCV(Member(p=0), cv, {"p": [1, 2]}, scoring=make_score(W), refit=True)
        raise AssertionError(k)

    def _run(self, W, k, inp, origin):
        np, pd = W.np, W.pd
        FH = W.load("sktime.forecasting.base").ForecastingHorizon
        n, nb = inp["n"], len(inp["u"])
        log = []
        f = self._build(W, k, inp, log)

        def ser(vals, start):
            idx = pd.RangeIndex(start, start + len(vals)) if inp["range_index"] else pd.Index([start + i for i in range(len(vals))])
            return pd.Series(list(vals), index=idx)

        y = ser(inp["y"], origin)
        ustart = (origin + n - 1 - nb) if inp.get("resend") else (origin + n)
        final_cut = ustart + nb - 1 if nb else origin + n - 1
        steps = list(reversed(inp["fh"])) if inp.get("as_unsorted_index") else list(inp["fh"])
        mk = (lambda v: pd.Index(v)) if inp.get("as_unsorted_index") else (lambda v: np.array(v))
        if inp["absolute"]:
            fh = FH(mk([final_cut + h for h in steps]), is_relative=False)
        elif k == "ensemble-window-trend":
            fh = FH(mk(steps))  # one horizon *object*, shared by the members and resolved again after the cutoff moves
        else:
            fh = mk(steps)
        out = {}
        if inp["fh_in_fit"]:
            f.fit(y, fh=fh)
        else:
            f.fit(y)
        out["cutoff_fit"] = S(f.cutoff)
        if nb and k == "ensemble-window-trend" and not inp["absolute"]:
            f.predict() if inp["fh_in_fit"] else f.predict(fh)  # a first forecast from the old cutoff
        if nb:
            f.update(ser(inp["u"], ustart), update_params=inp.get("update_params", True))
            out["cutoff_upd"] = S(f.cutoff)
        if k.startswith("naive") and not inp["fh_in_fit"]:
            # an earlier request the forecaster refuses part-way through its moving-cutoff loop (in-sample forecasts with
            # exogenous data are not supported); the caller carries on with a supported request
            Xf = pd.DataFrame({"x": [0.0] * (n + nb + 2)}, index=pd.RangeIndex(origin, origin + n + nb + 2))
            try:
                f.predict(np.array([0, 1]), X=Xf)
                out["refused"] = False
            except NotImplementedError:
                out["refused"] = True
        del log[:]
        p = f.predict() if inp["fh_in_fit"] else f.predict(fh)
        # stub members of composites report the cutoff they forecast from and the time points they were asked for
        out["member_predicts"] = [[e["who"], e["cutoff"], e["labels"]] for e in log if e.get("op") == "predict"]
        out["index"] = L(p.index)
        out["values"] = L(p.values)
        if k in ("reduce-direct", "reduce-dirrec", "reduce-multioutput") and not nb:
            ests = getattr(f, "estimators_", None) or [getattr(f, "estimator_", None)]
            out["first_targets"] = [getattr(e, "t_", None) for e in ests]
        if not inp["fh_in_fit"] and k not in REQUIRED_FH and len(inp["fh"]) > 1:
            # the value under a label must not depend on which other steps were requested
            singles = []
            for h in inp["fh"]:
                q = f.predict(FH(np.array([final_cut + h]), is_relative=False) if inp["absolute"] else np.array([h]))
                singles.append([L(q.index), L(q.values)])
            out["singles"] = singles
        return out

    def _run_twin(self, W, k, inp):
        """One forecaster, three requests: horizon A, then the horizon with the *same numbers but the other kind*
        (relative <-> absolute), then A again.  The cutoff is -d (d = 1 or 2), so both kinds are out-of-sample and
        differ by d."""
        np, pd = W.np, W.pd
        FH = W.load("sktime.forecasting.base").ForecastingHorizon
        n, nb = inp["n"], len(inp["u"])
        d = 1 if inp["range_index"] else 2
        origin = -d - nb - (n - 1)
        f = self._build(W, k, inp, [])

        def ser(vals, start):
            idx = pd.RangeIndex(start, start + len(vals)) if inp["range_index"] else pd.Index([start + i for i in range(len(vals))])
            return pd.Series(list(vals), index=idx)

        nums = list(inp["fh"])
        mk = lambda absolute: FH(np.array(nums), is_relative=not absolute)  # noqa: E731
        first_abs = inp["absolute"]
        # the object is not fresh: it was fitted before on a series that ends elsewhere
        if k != "gridsearch":  # (the tuner forks on every score comparison: its earlier fit is left out to keep the path count)
            f.fit(ser(inp["y"], origin - 5))
        if inp["fh_in_fit"]:
            f.fit(ser(inp["y"], origin), fh=mk(first_abs))
        else:
            f.fit(ser(inp["y"], origin))
        if nb:
            f.update(ser(inp["u"], origin + n), update_params=inp.get("update_params", True))
        p1 = f.predict() if inp["fh_in_fit"] else f.predict(mk(first_abs))
        p2 = f.predict(mk(not first_abs))
        p3 = f.predict(mk(first_abs))
        return {"d": d, "first_abs": first_abs, "p1": [L(p1.index), L(p1.values)], "p2": [L(p2.index), L(p2.values)], "p3": [L(p3.index), L(p3.values)]}

    def scenario(self, W, inp, cell):
        self._curW = W
        k = cell["kind"]
        out = {"a": self._run(W, k, inp, inp["s0"])}
        if k not in REQUIRED_FH and not inp.get("as_unsorted_index"):
            out["twin"] = self._run_twin(W, k, inp)
        if k in SHIFTABLE:
            out["b"] = self._run(W, k, inp, inp["s0"] + inp["delta"])
        return out

    def oracle(self, P, inp, out, cell):
        n, nb, s0, fh = inp["n"], len(inp["u"]), inp["s0"], inp["fh"]
        for tag, origin in (("a", s0), ("b", s0 + inp["delta"])):
            if tag not in out:
                continue
            o = out[tag]
            P.eq("cutoff-after-fit", o["cutoff_fit"], origin + n - 1)
            c = (origin + n - 2) if (inp.get("resend") and nb) else (origin + n - 1 + nb)
            if nb:
                P.eq("cutoff-after-update", o["cutoff_upd"], c)
            P.check("one-value-per-step", len(o["index"]) == len(fh) and len(o["values"]) == len(fh))
            if len(o["index"]) != len(fh):
                return
            for lab, h in zip(o["index"], fh):
                P.eq("index-is-cutoff-plus-fh", lab, c + h)
            for a, b in zip(o["index"], o["index"][1:]):
                P.check("index-increasing", a < b)
            for who, mc, mlabs in o.get("member_predicts", []):
                P.eq("index-is-cutoff-plus-fh", mc, c, {"what": "cutoff of a member forecaster at predict", "member": who})
                if len(mlabs) == len(fh):
                    for lab, h in zip(mlabs, fh):
                        P.eq("index-is-cutoff-plus-fh", lab, c + h, {"what": "time points a member forecaster was asked for", "member": who})
            for v in o["values"]:
                P.check("finite-values", not is_nan(v) and v is not None)
            if "first_targets" in o:
                # the regressor answering for step h was trained on targets h steps after its windows, whatever the other steps
                wl = inp["wl"]
                want = [inp["y"][wl + h - 1] for h in fh]
                ft = o["first_targets"]
                if len(ft) == 1 and isinstance(ft[0], list):
                    ft = ft[0]
                P.check("value-independent-of-other-steps", len(ft) == len(want), {"what": "training targets per requested step"})
                for a, b in zip(ft, want):
                    P.eq("value-independent-of-other-steps", a, b, {"what": "first training target of the regressor for this step"})
            for i, sg in enumerate(o.get("singles", [])):
                P.check("value-independent-of-other-steps", len(sg[0]) == 1)
                if len(sg[0]) == 1:
                    P.eq("value-independent-of-other-steps", sg[0][0], c + fh[i])
                    P.eq("value-independent-of-other-steps", sg[1][0], o["values"][i])
        if "twin" in out:
            t = out["twin"]
            d = t["d"]
            lab_abs, lab_rel = list(fh), [h - d for h in fh]
            e1, e2 = (lab_abs, lab_rel) if t["first_abs"] else (lab_rel, lab_abs)
            for nm, exp in (("p1", e1), ("p2", e2), ("p3", e1)):
                P.check("same-numbers-other-kind", len(t[nm][0]) == len(exp), {"call": nm})
                for lab, e in zip(t[nm][0], exp):
                    P.eq("same-numbers-other-kind", lab, e, {"call": nm})
            for va, vb in zip(t["p1"][1], t["p3"][1]):
                P.eq("same-numbers-other-kind", va, vb, {"call": "p3-values"})
        if "b" in out:
            for va, vb in zip(out["a"]["values"], out["b"]["values"]):
                P.eq("shift-invariant-values", va, vb)
            for la, lb in zip(out["a"]["index"], out["b"]["index"]):
                P.eq("shift-invariant-index", lb, la + inp["delta"])

    def comparable(self, out, cell):
        if cell["kind"] != "theta":
            return out
        # the trend coefficient is uninterpreted in the symbolic world and numpy's least squares in the real one:
        # labels and shapes are compared across the worlds, the numbers are judged by the oracle in each
        o = {}
        for tag in ("a", "b"):
            if tag in out:
                o[tag] = {k: v for k, v in out[tag].items() if k not in ("values", "singles")}
                o[tag]["n_values"] = len(out[tag]["values"])
                if "singles" in out[tag]:
                    o[tag]["single_labels"] = [sg[0] for sg in out[tag]["singles"]]
        if "twin" in out:
            t = out["twin"]
            o["twin"] = {"d": t["d"], "first_abs": t["first_abs"], "labels": [t[nm][0] for nm in ("p1", "p2", "p3")]}
        return o

    def signature(self, label, inp, cell):
        return "%s/%s" % (cell["kind"], label)


HARNESS = C03()


def run_check(tier, seed, jobs=None, only=None):
    from .. import runner

    HARNESS._tier = tier
    return runner.run_check(HARNESS, tier, seed, jobs=jobs, only=only)
