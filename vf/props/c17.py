"""C17 -- classifiers return well-formed probabilities consistent with their predictions (the part in reach)."""
import types
import warnings
from fractions import Fraction

from ..runner import Harness
from ..hutil import L, S, fresh_reals
from .. import worlds, symx
from ..symx import is_sym
from . import c14 as _c14

TSF_BASE = "sktime.series_as_features.base.estimators.interval_based._tsf"


def rows2(a, sym_or_str=False):
    """a 2-D result as a list of rows; anything else (a collapsed axis) is reported by its shape"""
    import numpy as np

    sh = list(np.shape(a))
    if len(sh) != 2:
        return {"bad_shape": sh}
    return [[S(v) for v in row] for row in a.tolist()]


def vec1(a):
    import numpy as np

    sh = list(np.shape(a))
    if len(sh) != 1:
        return {"bad_shape": sh}
    return [v if isinstance(v, str) else S(v) for v in a.tolist()]


class C17(Harness):
    pid = "C17"
    labels = (
        "proba-is-average-of-trees", "proba-well-formed", "predict-attains-max-probability", "predict-in-label-set",
        "tsf-features-mean-std-slope-in-order", "tsf-intervals-inside-series", "column-ensemble-average", "regressor-average", "score-is-fraction-correct",
    )
    stubs = (
        "fitted trees / member classifiers := stubs returning symbolic probability rows (assumed >= 0 and summing to 1) and recording the feature matrix they receive",
        "the forest classes cannot be constructed on scikit-learn 1.7 (base_estimator keyword): predict_proba / predict / _transform / _get_intervals are exercised as functions on a duck-typed `self`",
        "random generator of _get_intervals := returns an arbitrary (symbolic) value in the documented range",
        "label encoder := scikit-learn's real LabelEncoder on concrete labels (ints, strings, non-contiguous)",
    )
    assumptions = (
        "NOT APPLICABLE part (stated, not claimed): anything that needs a *fitted real* classifier -- dictionary-based classifiers (numba), classes_ order of real scikit-learn trees, label types through real fits",
    )
    outside = ("BOSS / cBOSS / TDE / MUSE / RISE / STSF numerics", "more than 3 trees / 3 classes / 3 instances")
    max_validate_quick = 10

    def bounds(self, tier):
        return {"trees": "1..3", "classes": "2..3", "instances": "1..2", "series_length": "3..5", "label_sets": ["ints", "strings", "non-contiguous ints"]}

    def cells(self, tier):
        return [{"name": k, "kind": k, "cost": 2} for k in ("tsf-proba", "tsf-transform", "tsf-transform-int", "tsf-intervals", "tsf-regressor", "column-ensemble", "base-predict-score")]

    def make_world(self, kind, cell):
        return _c14.HARNESS.make_world(kind, {"kind": "x"})

    def inputs(self, ctx, cell):
        def choice(name, lo, hi):
            v = ctx.fresh_int(name)
            ctx.assume((v >= lo) & (v <= hi))
            return int(v)

        k = cell["kind"]
        if k == "tsf-intervals":
            Ln = choice("L", 4, 6)
            mi = choice("min_interval", 1, 3)
            if mi >= Ln:
                ctx.assume(False)
            return {"L": Ln, "min_interval": mi, "r": [ctx.fresh_int("r%d" % i) for i in range(4)]}
        if k == "tsf-transform-int":
            # an integer-typed panel (a legal 3-D array input): the features are still real-valued
            vals = [choice("v%d" % t, 0, 2) for t in range(3)]
            return {"x": [[vals]], "intervals": [[0, 2], [0, 3]], "int_panel": True}
        ni = choice("ni", 1, 2)
        Ln = choice("L", 3, 5 if (k != "column-ensemble" or self._tier != "quick") else 3)
        if k in ("tsf-proba", "tsf-regressor", "base-predict-score"):
            # the series values only feed the stub trees here (the feature kernel is the tsf-transform cell):
            # concrete values keep the path condition linear in the symbolic tree outputs
            x = [[[float((3 * i + 2 * t * t + t) % 7) for t in range(Ln)]] for i in range(ni)]
        else:
            x = [[fresh_reals(ctx, "x%d_%d_" % (i, j), Ln) for j in range(2 if k == "column-ensemble" else 1)] for i in range(ni)]
        inp = {"x": x}
        if k == "tsf-transform":
            a = choice("a", 0, Ln - 2)
            b = choice("b", a + 2, Ln)
            inp["intervals"] = [[a, b], [0, Ln]]
            return inp
        ne = choice("ne", 1, 3)
        nk = choice("nk", 2, 3) if k != "tsf-regressor" else 1
        inp["labels"] = choice("labels", 0, 2)
        if k in ("tsf-proba", "tsf-regressor"):
            inp["n_jobs"] = choice("n_jobs", 1, 2)  # the number of jobs must not change the average (2 does not divide 3 trees)
        if k == "column-ensemble":
            inp["dup_names"] = bool(ctx.fresh_bool("dup_names"))
            inp["shared_estimator"] = inp["labels"] == 1  # (tied to the label-type choice to keep the path count)
            # members given their column by NAME, and a frame at predict time whose columns come in another order
            inp["by_name"] = inp["labels"] == 2 and not inp["dup_names"]
            # ... or by a callable evaluated on the frame given to fit (here: "the column standing at position k")
            inp["by_callable"] = inp["labels"] == 0 and not inp["dup_names"]
        p = [[fresh_reals(ctx, "p%d_%d_" % (e, i), nk) for i in range(ni)] for e in range(ne)]
        if k != "tsf-regressor":
            for e in range(ne):
                for i in range(ni):
                    for v in p[e][i]:
                        ctx.assume(v >= 0)
                    ctx.assume(sum(p[e][i]) == 1)
        inp["p"] = p
        return inp

    # ------------------------------------------------------------------
    def scenario(self, W, inp, cell):
        import numpy as np

        warnings.simplefilter("ignore")
        self._curW = W
        k = cell["kind"]
        tsf = W.load(TSF_BASE)
        if k == "tsf-intervals":
            class Rng:
                def __init__(self):
                    self.i = 0
                    self.calls = []

                def randint(self, n):
                    v = inp["r"][self.i]
                    self.i += 1
                    self.calls.append(S(n))
                    from ..symx import Ctx

                    if is_sym(v):
                        Ctx.cur.assume((v >= 0) & (v < n))
                    elif not (0 <= v < n):
                        raise symx.Abort()
                    return v

            rng = Rng()
            iv = tsf._get_intervals(2, inp["min_interval"], inp["L"], rng)
            return {"intervals": [[S(v) for v in row] for row in iv.tolist()], "calls": rng.calls}
        sym = any(is_sym(v) for inst in inp["x"] for col in inst for v in col) or any(is_sym(v) for e in inp.get("p", []) for r in e for v in r)
        worlds.TOKEN_MODE[0] = sym
        try:
            ni, Ln = len(inp["x"]), len(inp["x"][0][0])
            xsym = any(is_sym(v) for inst in inp["x"] for col in inst for v in col)
            X3 = np.empty((ni, len(inp["x"][0]), Ln), dtype=object if xsym else (np.int64 if inp.get("int_panel") else float))
            for i in range(ni):
                for j in range(X3.shape[1]):
                    for t, v in enumerate(inp["x"][i][j]):
                        X3[i, j, t] = v
            if k in ("tsf-transform", "tsf-transform-int"):
                Xt = tsf._transform(X3[:, 0, :], np.array(inp["intervals"]))
                return {"features": [[S(v) for v in row] for row in Xt.tolist()]}
            labels = [[0, 1, 2], ["a", "bbbb", "cc"], [3, 7, 11]][inp["labels"]]  # (strings of unequal length, the first one shortest)
            p = inp["p"]
            ne, nk = len(p), len(p[0][0])
            seen = []

            def mk_tree(e, record=True):
                def predict_proba(Xt):
                    if record:
                        seen.append([[S(v) for v in row] for row in Xt.tolist()])
                    a = np.empty((ni, nk), dtype=object if sym else float)
                    for i in range(ni):
                        for c in range(nk):
                            a[i, c] = p[e][i][c]
                    return a

                def predict(Xt):
                    if record:
                        seen.append([[S(v) for v in row] for row in Xt.tolist()])
                    a = np.empty(ni, dtype=object if sym else float)
                    for i in range(ni):
                        a[i] = p[e][i][0]
                    return a

                return types.SimpleNamespace(predict_proba=predict_proba, predict=predict)

            intervals = [np.array([[0, 2], [1, Ln]]) for _ in range(ne)]
            if k in ("tsf-proba", "tsf-regressor"):
                me = types.SimpleNamespace(check_is_fitted=lambda: None, series_length=Ln, n_jobs=inp.get("n_jobs", 1), estimators_=[mk_tree(e) for e in range(ne)], intervals_=intervals, n_estimators=ne, n_classes=nk, classes_=np.array(labels[:nk]))
                if k == "tsf-proba":
                    C = W.load("sktime.classification.interval_based._tsf").TimeSeriesForestClassifier
                    me.predict_proba = lambda X: C.predict_proba(me, X)
                    proba = C.predict_proba(me, X3)
                    pred = C.predict(me, X3)
                    return {"proba": rows2(proba), "pred": vec1(pred), "features_seen": seen[:ne], "classes": labels[:nk]}
                R = W.load("sktime.regression.interval_based._tsf").TimeSeriesForestRegressor
                pred = R.predict(me, X3)
                return {"pred": [S(v) for v in np.asarray(pred).tolist()]}
            if k == "column-ensemble":
                from sklearn.base import BaseEstimator, ClassifierMixin

                class Clf(ClassifierMixin, BaseEstimator):
                    def __init__(self, e=0):
                        self.e = e

                    def fit(self, X, y):
                        self.fit_first_ = [S(v) for v in list(X.iloc[0, 0])]  # what this (cloned) member was fitted on
                        return self

                    def predict_proba(self, X):
                        seen.append([self.e, [[S(v) for v in list(X.iloc[i, 0])] for i in range(X.shape[0])], int(X.shape[1]), list(self.fit_first_)])
                        return mk_tree(self.e, record=False).predict_proba(None)

                CE = W.load("sktime.classification.compose._column_ensemble").ColumnEnsembleClassifier
                Xn, _ = _c14.HARNESS._nested(inp["x"])
                ys = np.array((list(reversed(labels[:nk])) * 3)[: max(ni, nk)])  # first appearances are not in sorted order
                Xfit, _ = _c14.HARNESS._nested([inp["x"][i % ni] for i in range(len(ys))])
                if inp.get("dup_names"):  # two univariate panels put side by side carry the same default column label
                    Xn.columns = ["dim_0", "dim_0"]
                    Xfit.columns = ["dim_0", "dim_0"]
                colspec = (lambda e: [["c0", "c1"][e % 2]]) if inp.get("by_name") else (lambda e: [e % 2])
                if inp.get("by_callable"):
                    colspec = lambda e: (lambda X_, k_=e % 2: [list(X_.columns)[k_]])  # noqa: E731
                if inp.get("by_name") or inp.get("by_callable"):
                    Xn = Xn[["c1", "c0"]]
                if inp.get("shared_estimator"):  # one estimator object listed for every member: each member still is its own clone
                    one = Clf(e=0)
                    members = [("m%d" % e, one, colspec(e)) for e in range(ne)]
                else:
                    members = [("m%d" % e, Clf(e=e), colspec(e)) for e in range(ne)]
                ce = CE(members + [("unused", "drop", [0])])  # a member specified as 'drop' does not vote
                ce.fit(Xfit, ys)
                del seen[:]
                proba = ce.predict_proba(Xn)
                pred = ce.predict(Xn)
                return {"proba": rows2(proba), "pred": vec1(pred), "members_saw": seen[:ne], "classes": [v if isinstance(v, str) else int(v) for v in ce.classes_.tolist()], "labels_sorted": labels[:nk]}
            if k == "base-predict-score":
                from sklearn.preprocessing import LabelEncoder

                BC = W.load("sktime.classification.base").BaseClassifier

                class Clf(BC):
                    def __init__(self):
                        super().__init__()

                    def fit(self, X, y):
                        self.label_encoder = LabelEncoder().fit(y)
                        self._is_fitted = True
                        return self

                    def predict_proba(self, X):
                        return mk_tree(0, record=False).predict_proba(None)

                c = Clf().fit(X3, np.array(labels[:nk]))
                pred = c.predict(X3)
                truth = np.array([labels[0]] * ni)
                import pandas as pd

                # the same truth as a labelled Series whose row labels are not 0..n-1 (a fold of a larger data set)
                score_series = float(c.score(X3, pd.Series(list(truth), index=list(range(5 + ni - 1, 4, -1)))))
                return {"pred": [v if isinstance(v, str) else S(v) for v in pred.tolist()], "score": float(c.score(X3, truth)), "score_series_truth": score_series, "classes": labels[:nk]}
        finally:
            worlds.TOKEN_MODE[0] = False
        raise AssertionError(k)

    def comparable(self, out, cell):
        return out

    # ------------------------------------------------------------------
    def oracle(self, P, inp, out, cell):
        k = cell["kind"]
        if k == "tsf-intervals":
            Ln, mi = inp["L"], inp["min_interval"]
            P.check("tsf-intervals-inside-series", len(out["intervals"]) == 2)
            for s, e in out["intervals"]:
                P.check("tsf-intervals-inside-series", (s >= 0) & (s < e) & (e <= Ln) & (e - s >= mi), {"interval": [S(s) if not is_sym(s) else None, None]})
            return
        x = inp["x"]
        ni, Ln = len(x), len(x[0][0])

        def feats(seg):
            n = len(seg)
            mean = sum(seg) / n
            var = sum((v - mean) * (v - mean) for v in seg) / n
            std = symx.sym_sqrt(var) if (P.sym and is_sym(var)) else float(var) ** 0.5
            ts = [t + 1 for t in range(n)]
            tbar = Fraction(sum(ts), n) if P.sym else sum(ts) / n
            slope = sum((t - tbar) * (v - mean) for t, v in zip(ts, seg)) / sum((t - tbar) * (t - tbar) for t in ts)
            return mean, std, slope, n

        def check_features(F, intervals, label="tsf-features-mean-std-slope-in-order"):
            P.check(label, len(F) == ni and all(len(r) == 3 * len(intervals) for r in F))
            for i in range(min(ni, len(F))):
                for j, (a, b) in enumerate(intervals):
                    mean, std, slope, n = feats(x[i][0][a:b])
                    if not any(is_sym(v) for v in x[i][0]):
                        # concrete panel: the kernel stores float32 features -> compare with single-precision tolerance
                        for got, want, nm in ((F[i][3 * j], mean, "mean"), (F[i][3 * j + 1], std, "std"), (F[i][3 * j + 2], slope, "slope")):
                            P.check(label, abs(float(got) - float(want)) <= 1e-5 * (1 + abs(float(want))), {"feature": nm, "got": float(got), "want": float(want)})
                        continue
                    P.eq(label, F[i][3 * j], mean, {"feature": "mean"})
                    _c14.C14._eq_tol(P, label, F[i][3 * j + 1], std, x[i][0][a:b], exact=False, detail={"feature": "std"})
                    _c14.C14._eq_tol(P, label, F[i][3 * j + 2], slope, x[i][0][a:b], exact=(n & (n - 1) == 0), detail={"feature": "slope"})

        if k in ("tsf-transform", "tsf-transform-int"):
            check_features(out["features"], inp["intervals"])
            return
        p = inp["p"]
        ne, nk = len(p), len(p[0][0])
        if k == "tsf-regressor":
            for i in range(ni):
                P.eq("regressor-average", out["pred"][i], sum(p[e][i][0] for e in range(ne)) / ne)
            return

        def wellformed(proba, classes):
            if isinstance(proba, dict):
                P.check("proba-well-formed", False, {"what": "one row per instance, one column per class", "shape": proba["bad_shape"]})
                return False
            P.check("proba-well-formed", len(proba) == ni and all(len(r) == len(classes) for r in proba))
            for r in proba:
                P.eq("proba-well-formed", sum(r), 1)
                for v in r:
                    P.check("proba-well-formed", (v >= 0) & (v <= 1))

        def pred_ok(pred, proba, classes):
            if isinstance(pred, dict) or isinstance(proba, dict):
                P.check("predict-in-label-set", False, {"what": "one label per instance", "shape": (pred if isinstance(pred, dict) else proba)["bad_shape"]})
                return
            P.check("predict-in-label-set", len(pred) == ni and all(q in classes for q in pred), {"pred": [str(q) for q in pred]})
            for i in range(min(ni, len(pred))):
                if pred[i] in classes:
                    c = classes.index(pred[i])
                    for v in proba[i]:
                        P.check("predict-attains-max-probability", proba[i][c] >= v)

        if k == "tsf-proba":
            proba = out["proba"]
            if wellformed(proba, out["classes"]) is False:
                return
            for i in range(ni):
                for c in range(nk):
                    P.eq("proba-is-average-of-trees", proba[i][c], sum(p[e][i][c] for e in range(ne)) / ne)
            pred_ok(out["pred"], proba, out["classes"])
            P.check("tsf-features-mean-std-slope-in-order", len(out["features_seen"]) == ne)
            if not P.sym:
                for F in out["features_seen"][:1]:  # symbolic check of the feature kernel: tsf-transform cell
                    check_features(F, [[0, 2], [1, Ln]])
            return
        if k == "column-ensemble":
            proba = out["proba"]
            P.check("proba-well-formed", out["classes"] == out["labels_sorted"], {"what": "classes_ sorted, columns ordered like classes_", "classes_": [str(c) for c in out["classes"]]})
            if wellformed(proba, out["classes"]) is False:
                return
            for i in range(ni):
                for c in range(nk):
                    members_p = [p[0 if inp.get("shared_estimator") else e][i][c] for e in range(ne)]
                    P.eq("column-ensemble-average", proba[i][c], sum(members_p) / ne)
            pred_ok(out["pred"], proba, out["classes"])
            P.check("column-ensemble-average", len(out["members_saw"]) == ne)
            for k_, (e, rows, ncols, fitted_on) in enumerate(out["members_saw"]):
                e = k_ if inp.get("shared_estimator") else e  # members are asked in the order they are listed
                P.check("column-ensemble-average", ncols == 1, {"member": e, "columns_received": ncols})
                for i in range(ni):
                    for a, b in zip(rows[i], x[i][e % 2]):
                        P.eq("column-ensemble-average", a, b, {"member": e})
                for a, b in zip(fitted_on, x[0][e % 2]):
                    P.eq("column-ensemble-average", a, b, {"member": e, "what": "fitted on its own column"})
            return
        if k == "base-predict-score":
            proba = [p[0][i] for i in range(ni)]
            pred_ok(out["pred"], proba, out["classes"])
            hits = sum(1 for q in out["pred"] if q == out["classes"][0])
            P.check("score-is-fraction-correct", abs(out["score"] - hits / ni) < 1e-12)
            if "score_series_truth" in out:
                P.check("score-is-fraction-correct", abs(out["score_series_truth"] - hits / ni) < 1e-12, {"what": "truth given as a Series with other row labels", "score": out["score_series_truth"]})

    def signature(self, label, inp, cell, detail=None):
        return "%s/%s" % (cell["kind"], label)


HARNESS = C17()


def run_check(tier, seed, jobs=None, only=None):
    from .. import runner

    HARNESS._tier = tier
    return runner.run_check(HARNESS, tier, seed, jobs=jobs, only=only)
