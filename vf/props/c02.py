"""C02 -- ForecastingHorizon conversions are exact, order-preserving and mutually inverse."""
from fractions import Fraction

from ..runner import Harness
from ..hutil import L, S, fresh_ints

FHMOD = "sktime.forecasting.base._fh"
REJ = (TypeError, ValueError)


class C02(Harness):
    pid = "C02"
    labels = (
        "duplicates-rejected",
        "stored-sorted",
        "stored-permutation",
        "to-absolute",
        "round-trip",
        "flags",
        "partition",
        "all-predicates",
        "indexer",
        "absolute-int",
        "fault-rejected",
        "valid-accepted",
        "empty-rejected",
    )
    stubs = ()
    assumptions = ("RangeIndex construction: step in -3..-1 or >= 1 (symbolic)", "integer indices only")
    outside = ("DatetimeIndex / PeriodIndex horizons and Timestamp / Period cutoffs", "horizons longer than the stated number of steps")

    def bounds(self, tier):
        return {"steps": [1, 2, 3] if tier == "quick" else [1, 2, 3, 4]}

    def cells(self, tier):
        out = []
        for k in self.bounds(tier)["steps"]:
            for rel in (True, False):
                for how in ("array", "list", "index", "range") + (("int", "array-uint8") if k == 1 else (("array-uint8",) if k == 2 else ())):
                    out.append({"name": "%s-%s-k%d" % ("rel" if rel else "abs", how, k), "kind": "conv", "rel": rel, "how": how, "K": k, "cost": k * k})
                if k == 2:
                    # a range horizon with a small symbolic step (|step| <= 3): code that rebuilds a range from shifted
                    # bounds turns the step into a length, which an unbounded step cannot enumerate
                    out.append({"name": "%s-range-smallstep-k%d" % ("rel" if rel else "abs", k), "kind": "conv", "rel": rel, "how": "range", "K": k, "small_step": True, "cost": k * k})
                if k <= 2:
                    out.append({"name": "%s-array-k%d-concrete-cutoff" % ("rel" if rel else "abs", k), "kind": "conv", "rel": rel, "how": "array", "K": k, "concrete_cutoff": True, "cost": k * k})
        out.append({"name": "faults", "kind": "faults", "cost": 1})
        return out

    def inputs(self, ctx, cell):
        if cell["kind"] == "faults":
            r = ctx.fresh_real("r")
            ctx.assume(~r.is_integer())
            v = ctx.fresh_int("v")
            return {"frac": r, "v": v}
        K = cell["K"]
        inp = {"c": ctx.fresh_int("c"), "start": ctx.fresh_int("start")}
        if cell.get("concrete_cutoff"):
            # a concrete cutoff exercises value-keyed caches (a symbolic one cannot be hashed)
            ctx.assume((inp["c"] >= -1) & (inp["c"] <= 1))
            inp["c"] = int(inp["c"])
        if cell["how"] == "range":
            inp["r0"] = ctx.fresh_int("r0")
            inp["step"] = ctx.fresh_int("step")
            ctx.assume((inp["step"] >= -3) & (inp["step"] != 0))
            if cell.get("small_step"):
                ctx.assume(inp["step"] <= 3)
        else:
            inp["v"] = fresh_ints(ctx, "v", K)
            if cell["how"] == "array-uint8":
                for v in inp["v"]:
                    ctx.assume((v >= 0) & (v <= 100))  # representable in the narrow type; results of the conversions need not be
                ctx.assume((inp["c"] >= -300) & (inp["c"] <= 300))
        return inp

    def _build(self, W, inp, cell):
        np, pd = W.np, W.pd
        how = cell["how"]
        if how == "array":
            return np.array(inp["v"])
        if how == "array-uint8":
            return np.array(inp["v"], dtype=np.uint8)  # an integer array of a narrower dtype
        if how == "list":
            return list(inp["v"])
        if how == "index":
            return pd.Index(inp["v"])
        if how == "int":
            return inp["v"][0]
        r0, st = inp["r0"], inp["step"]
        return pd.RangeIndex(r0, r0 + cell["K"] * st, st)

    def scenario(self, W, inp, cell):
        fhm = W.load(FHMOD)
        FH = fhm.ForecastingHorizon
        np, pd = W.np, W.pd
        if cell["kind"] == "faults":
            return self._faults(W, FH, inp)
        rel = cell["rel"]
        c, start = inp["c"], inp["start"]
        try:
            fh = FH(self._build(W, inp, cell), is_relative=rel)
        except ValueError:
            return {"rejected": True}
        out = {"rejected": False, "values": L(fh.to_pandas()), "is_relative": fh.is_relative}
        if cell.get("concrete_cutoff"):
            fh.is_all_out_of_sample(c)  # a query through the other representation first, on the same object
        a = fh.to_absolute(c)
        r = fh.to_relative(c)
        a2 = fh.to_absolute(c)
        out["abs_again"] = L(a2.to_pandas())
        out["abs"] = L(a.to_pandas())
        out["rel"] = L(r.to_pandas())
        out["abs_flag"] = a.is_relative
        out["rel_flag"] = r.is_relative
        out["abs_back"] = L(a.to_relative(c).to_pandas())
        out["rel_back"] = L(r.to_absolute(c).to_pandas())
        out["ins"] = L(fh.to_in_sample(c).to_pandas())
        out["oos"] = L(fh.to_out_of_sample(c).to_pandas())
        out["all_in"] = bool(fh.is_all_in_sample(c))
        out["all_out"] = bool(fh.is_all_out_of_sample(c))
        out["indexer"] = L(fh.to_indexer(c))
        if cell["rel"]:  # a relative horizon needs no cutoff for its indexer
            out["indexer_nocutoff"] = L(fh.to_indexer())
        out["abs_int"] = L(fh.to_absolute_int(start, c).to_pandas())
        out["len"] = len(fh)
        return out

    def _faults(self, W, FH, inp):
        np, pd = W.np, W.pd
        chk = W.load("sktime.utils.validation.forecasting")
        v = inp["v"]

        def rej(f):
            try:
                f()
            except REJ:
                return True
            return False

        out = {}
        out["frac_array"] = rej(lambda: FH(np.array([inp["frac"]])))
        out["frac_list"] = rej(lambda: FH([v, inp["frac"]]))
        out["float_scalar"] = rej(lambda: FH(inp["frac"]))
        # a single value of an unsupported numeric type is refused even when it happens to be whole-valued
        out["whole_float_scalar"] = rej(lambda: FH(2.0))
        out["whole_npfloat_scalar"] = rej(lambda: FH(np.float64(3.0)))
        out["whole_fraction_scalar"] = rej(lambda: FH(Fraction(4, 2)))
        out["whole_float_check_fh"] = rej(lambda: chk.check_fh(-1.0))
        out["str"] = rej(lambda: FH("1"))
        out["str_list"] = rej(lambda: FH(["a", "b"]))
        out["none_in_list"] = rej(lambda: FH([v, None]))
        out["dict"] = rej(lambda: FH({"a": 1}))
        out["tuple"] = rej(lambda: FH((1, 2)))
        out["isrel_str"] = rej(lambda: FH([v], is_relative="yes"))
        out["isrel_int"] = rej(lambda: FH([v], is_relative=1))
        out["isrel_none"] = rej(lambda: FH([v], is_relative=None))
        out["bool_scalar"] = rej(lambda: chk.check_fh(None))
        out["empty_list"] = rej(lambda: chk.check_fh([]))
        out["empty_array"] = rej(lambda: chk.check_fh(np.array([], dtype=int)))
        # empty horizon *objects* (the constructor allows them: the in-sample part of an out-of-sample horizon ...)
        out["empty_object"] = rej(lambda: chk.check_fh(FH([])))
        out["empty_object_in_sample_part"] = rej(lambda: chk.check_fh(FH([1, 2]).to_in_sample()))
        out["empty_object_absolute"] = rej(lambda: chk.check_fh(FH([v + 1, v + 2], is_relative=False).to_in_sample(v)))
        out["abs_enforce_rel"] = rej(lambda: chk.check_fh(FH([v], is_relative=False), enforce_relative=True))
        # valid twins
        out["ok_int"] = not rej(lambda: chk.check_fh(v))
        out["ok_list"] = not rej(lambda: chk.check_fh([v, v + 1]))
        out["ok_array"] = not rej(lambda: chk.check_fh(np.array([v])))
        out["ok_abs"] = not rej(lambda: chk.check_fh(FH([v], is_relative=False)))
        return out

    def oracle(self, P, inp, out, cell):
        if cell["kind"] == "faults":
            for k, val in out.items():
                if k.startswith("ok_"):
                    P.check("valid-accepted", val, {"case": k})
                elif k.startswith("empty") or k == "bool_scalar":
                    P.check("empty-rejected", val, {"case": k})
                else:
                    P.check("fault-rejected", val, {"case": k})
            return
        K, rel, c, start = cell["K"], cell["rel"], inp["c"], inp["start"]
        if cell["how"] == "range":
            v = [inp["r0"] + i * inp["step"] for i in range(K)]
        else:
            v = inp["v"]
        dup = False
        for i, a in enumerate(v):
            for b in v[i + 1 :]:
                dup = (a == b) | dup
        if out["rejected"]:
            P.check("duplicates-rejected", dup)
            return
        P.check("duplicates-rejected", ~dup if not isinstance(dup, bool) else (not dup))
        vals = out["values"]
        P.check("stored-permutation", len(vals) == K and out["len"] == K)
        for a, b in zip(vals, vals[1:]):
            P.check("stored-sorted", a < b)
        for x in v:
            hit = False
            for y in vals:
                hit = (x == y) | hit
            P.check("stored-permutation", hit)
        P.check("flags", out["is_relative"] == rel and out["abs_flag"] is False and out["rel_flag"] is True)
        relv = vals if rel else [x - c for x in vals]
        absv = [x + c for x in vals] if rel else vals
        for a, w in zip(out["abs"], absv):
            P.eq("to-absolute", a, w)
        for a, w in zip(out["abs_again"], absv):
            P.eq("to-absolute", a, w)
        for a, w in zip(out["rel"], relv):
            P.eq("to-absolute", a, w)
        for a, w in zip(out["abs_back"], relv):
            P.eq("round-trip", a, w)
        for a, w in zip(out["rel_back"], absv):
            P.eq("round-trip", a, w)
        P.check("round-trip", len(out["abs"]) == K and len(out["rel"]) == K and len(out["abs_back"]) == K and len(out["rel_back"]) == K)
        # partition at step 0 (original representation kept)
        exp_in = [x for x, r in zip(vals, relv) if bool(r <= 0)]
        exp_out = [x for x, r in zip(vals, relv) if not bool(r <= 0)]
        P.check("partition", len(out["ins"]) == len(exp_in) and len(out["oos"]) == len(exp_out))
        if len(out["ins"]) == len(exp_in) and len(out["oos"]) == len(exp_out):
            for a, w in zip(out["ins"] + out["oos"], exp_in + exp_out):
                P.eq("partition", a, w)
        P.check("all-predicates", out["all_in"] == (len(exp_out) == 0) and out["all_out"] == (len(exp_in) == 0))
        P.check("indexer", len(out["indexer"]) == K)
        for a, r in zip(out["indexer"], relv):
            P.eq("indexer", a, r - 1)
        if "indexer_nocutoff" in out:
            P.check("indexer", len(out["indexer_nocutoff"]) == K)
            for a, r in zip(out["indexer_nocutoff"], relv):
                P.eq("indexer", a, r - 1, {"what": "to_indexer() without a cutoff"})
        for a, w in zip(out["abs_int"], absv):
            P.eq("absolute-int", a, w - start)

    def signature(self, label, inp, cell):
        return "%s/%s" % (cell["name"].rsplit("-k", 1)[0], label)


HARNESS = C02()
