"""C08 -- tuning selects, exposes and refits the candidate with the best CV score."""
from ..runner import Harness
from ..hutil import L, S, fresh_ints, fresh_reals, increasing
from .stubs import make_member, make_transformer
from .c07 import make_score

TUNE = "sktime.forecasting.model_selection._tune"
SPLIT = "sktime.forecasting.model_selection._split"


class C08(Harness):
    pid = "C08"
    labels = (
        "same-splits-for-every-candidate",
        "row-equals-independent-evaluate",
        "best-is-optimal-in-declared-direction",
        "best-params-score-belong-to-best-index",
        "refit-on-whole-series",
        "predict-equals-direct-forecaster",
        "update-and-cutoff-delegate",
        "no-refit-raises-NotFittedError",
        "candidates-enumerated",
        "evaluation-strategy-honoured",
    )
    stubs = (
        "base forecaster := recording member stub (forecast = uninterpreted function of (parameter, cutoff, label)), also inside a TransformedTargetForecaster / MultiplexForecaster for nested parameter names",
        "scoring := uninterpreted S(y_true..., y_pred...) with a declared greater_is_better",
        "joblib.Parallel := sequential; sklearn ParameterGrid / ParameterSampler / clone / set_params := the real scikit-learn code",
    )
    assumptions = ("expanding-window CV with start_with_window=True", "ties between candidate means: any optimal candidate is accepted")
    outside = ("more than 3 candidates / 3 folds",)

    def bounds(self, tier):
        q = tier == "quick"
        return {"candidates": [2, 3], "n": "3..%d" % (5 if q else 6), "folds": "1..3", "fh_steps": 1}

    def cells(self, tier):
        out = []
        for gib in (False, True):
            for base in ("plain", "pipeline", "multiplexer", "randomized", "listgrid", "mixedtypes"):
                for refit in (True, False):
                    out.append({"name": "%s-%s-%s" % (base, "gib" if gib else "loss", "refit" if refit else "norefit"), "kind": base, "gib": gib, "refit": refit, "cost": 2})
            # a candidate that cannot forecast (NaN predictions, NaN mean score under an honest metric) is never the best
            out.append({"name": "plain-%s-refit-nan-candidate" % ("gib" if gib else "loss"), "kind": "plain", "gib": gib, "refit": True, "nan_candidate": True, "cost": 2})
            # a splitter horizon with a gap (steps 1 and 3): the scores are taken over the splitter's test points only
            out.append({"name": "%s-%s-refit-gapped" % ("pipeline" if gib else "plain", "gib" if gib else "loss"), "kind": "pipeline" if gib else "plain", "gib": gib, "refit": True, "gapped": True, "cost": 2})
            # a candidate that replaces a pipeline step AND sets a nested parameter of that step
            out.append({"name": "replace-%s-refit" % ("gib" if gib else "loss"), "kind": "replace", "gib": gib, "refit": True, "cost": 2})
            for base in ("plain", "randomized"):  # the evaluation strategy given to the tuner reaches evaluate()
                out.append({"name": "%s-%s-refit-update-strategy" % (base, "gib" if gib else "loss"), "kind": base, "gib": gib, "refit": True, "strategy": "update", "cost": 2})
        return out

    def inputs(self, ctx, cell):
        q = self._tier == "quick"
        n = ctx.fresh_int("n")
        ctx.assume((n >= 3) & (n <= (5 if q else 6)))
        nn = int(n)
        iw = ctx.fresh_int("iw")
        ctx.assume((iw >= nn - 3) & (iw >= 1) & (iw <= nn - 1))
        if cell.get("gapped"):
            ctx.assume(iw + 3 <= nn)
        nc = ctx.fresh_int("nc")
        ctx.assume((nc >= 2) & (nc <= (3 if cell["kind"] == "plain" else 2)))
        nb = ctx.fresh_int("nb")
        ctx.assume((nb >= 0) & (nb <= 1))
        nb = int(nb)
        return {"n": nn, "iw": int(iw), "nc": int(nc), "s0": ctx.fresh_int("s0"), "y": fresh_reals(ctx, "y", nn), "u": fresh_reals(ctx, "u", nb),
                "wrapped_scorer": bool(ctx.fresh_bool("wrapped_scorer"))}

    def scenario(self, W, inp, cell):
        np, pd = W.np, W.pd
        self._curW = W
        tune = W.load(TUNE)
        sp = W.load(SPLIT)
        NFE = W.load("sktime.exceptions").NotFittedError
        log = []
        Member = make_member(W, log)
        if cell.get("nan_candidate"):
            Member.NAN_P = 1  # the first candidate of the grid
        T, _ = make_transformer(W, log)
        n, s0, nc = inp["n"], inp["s0"], inp["nc"]
        y = pd.Series(inp["y"], index=pd.RangeIndex(s0, s0 + n))
        cv = sp.ExpandingWindowSplitter(fh=np.array([1, 3]) if cell.get("gapped") else 1, initial_window=inp["iw"], step_length=1)
        sc = make_score(W, gib=cell["gib"], honest_nan=bool(cell.get("nan_candidate")))
        if inp.get("wrapped_scorer"):
            # the library's own scorer wrapper around the same uninterpreted metric
            mk = W.load("sktime.performance_metrics.forecasting._classes").make_forecasting_scorer
            raw = sc
            sc = mk(lambda a, b: raw(a, b), name="stub", greater_is_better=cell["gib"])
        kind = cell["kind"]
        ps = list(range(1, nc + 1))
        if kind == "plain":
            base, grid = Member(p=0), {"p": ps}
            cand_p = ps
        elif kind == "pipeline":
            PIPE = W.load("sktime.forecasting.compose._pipeline").TransformedTargetForecaster
            base, grid = PIPE([("t", T(tag=1)), ("f", Member(p=0))]), {"f__p": ps}
            cand_p = ps
        elif kind == "replace":
            PIPE = W.load("sktime.forecasting.compose._pipeline").TransformedTargetForecaster
            base, grid = PIPE([("t", T(tag=1)), ("f", Member(p=0))]), {"f": [Member(p=0, q=7)], "f__p": ps}
            cand_p = ps
        elif kind == "multiplexer":
            MUX = W.load("sktime.forecasting.compose._multiplexer").MultiplexForecaster
            base = MUX([("a", Member(p=1)), ("b", Member(p=2))])
            grid = {"selected_forecaster": ["a", "b"][:nc]}
            cand_p = [1, 2][:nc]
        elif kind == "mixedtypes":
            # settings that compare equal in Python (1 == 1.0) are still different candidates (int = count, float = fraction ...)
            base, grid = Member(p=0), {"p": [1, 1.0]}
            cand_p = [1, 1.0]
        elif kind == "listgrid":
            # a list of grids with different key sets: the second grid's candidates must keep the base value of q
            base, grid = Member(p=0, q=0), [{"p": [1], "q": [5]}, {"p": ps[1:]}]
            cand_p = ps
        else:
            base, grid = Member(p=0), {"p": [1, 2, 3, 4, 5]}  # n_iter = nc of these five are drawn
            cand_p = None
        if kind == "randomized":
            import numpy as _rnp

            # an integer seed or a generator object (a generator is consumed: sampling the candidates twice differs)
            rs = _rnp.random.RandomState(3) if inp.get("wrapped_scorer") else 3
            gs = tune.ForecastingRandomizedSearchCV(base, cv, grid, n_iter=nc, scoring=sc, refit=cell["refit"], random_state=rs, strategy=cell.get("strategy", "refit"))
        else:
            gs = tune.ForecastingGridSearchCV(base, cv, grid, scoring=sc, refit=cell["refit"], strategy=cell.get("strategy", "refit"))
        fh = np.array([1])
        gs.fit(y, fh=fh)
        res = gs.cv_results_
        out = {"means": [S(res["mean_test_stub"].iloc[i]) for i in range(len(res))], "params": [dict(res["params"].iloc[i]) for i in range(len(res))]}
        out["params"] = [{k: (("member", S(v.q)) if hasattr(v, "get_params") else S(v)) for k, v in d.items()} for d in out["params"]]
        out["best_index"] = S(gs.best_index_)
        out["best_score"] = S(gs.best_score_)
        out["best_params"] = {k: (("member", S(v.q)) if hasattr(v, "get_params") else S(v)) for k, v in dict(gs.best_params_).items()}
        out["splits"] = [[L(a), L(b)] for a, b in cv.split(y)]
        out["fitlog"] = [e for e in log if e["op"] in ("fit", "update")]
        del log[:]
        if kind == "plain" and cell["refit"] and not cell.get("nan_candidate") and not cell.get("gapped") and cell.get("strategy", "refit") == "refit":
            # a second search over the SAME base forecaster object, tuning another parameter: its candidates are the
            # base forecaster as the caller configured it (p = 0) plus their own setting
            gs2 = tune.ForecastingGridSearchCV(base, cv, {"q": [5, 6]}, scoring=sc, refit=False)
            gs2.fit(y, fh=fh)
            res2 = gs2.cv_results_
            out["second"] = {"means": [S(res2["mean_test_stub"].iloc[i]) for i in range(len(res2))], "fitlog": [e for e in log if e["op"] in ("fit", "update")], "base_p": S(base.p), "base_q": S(base.q)}
            del log[:]
        nb = len(inp["u"])
        yb = pd.Series(inp["u"], index=pd.RangeIndex(s0 + n, s0 + n + nb)) if nb else None
        if cell["refit"]:
            p1 = gs.predict()
            out["pred1"] = [L(p1.index), L(p1.values)]
            out["cutoff1"] = S(gs.cutoff)
            if nb:
                up = not inp.get("wrapped_scorer")
                gs.update(yb, update_params=up)
                out["update_params"] = up
                out["cutoff2"] = S(gs.cutoff)
                p2 = gs.predict()
                out["pred2"] = [L(p2.index), L(p2.values)]
            out["postlog"] = list(log)
            if kind == "plain" and not nb and not cell.get("nan_candidate") and not cell.get("gapped") and not inp.get("wrapped_scorer"):
                # the same tuner object re-configured to refit=False and fitted again: nothing may answer from the earlier winner
                gs.set_params(refit=False)
                gs.fit(y, fh=fh)
                del log[:]

                def nfe2(f_):
                    try:
                        f_()
                    except NFE:
                        return True
                    return False

                out["refit_switched_off"] = {"nfe_predict": nfe2(lambda: gs.predict(fh)), "nfe_update": nfe2(lambda: gs.update(y)), "calls": [e["op"] for e in log if e["op"] in ("fit", "update", "predict")]}
        else:
            def nfe(f):
                try:
                    f()
                except NFE:
                    return True
                return False

            out["nfe_predict"] = nfe(lambda: gs.predict(fh))
            out["nfe_update"] = nfe(lambda: gs.update(y))
            out["nfe_update_predict_single"] = nfe(lambda: gs.update_predict_single(y, fh))
            out["postlog"] = list(log)
        return out

    def oracle(self, P, inp, out, cell):
        W = self._curW
        n, s0, y, nc = inp["n"], inp["s0"], inp["y"], inp["nc"]
        kind = cell["kind"]
        F = lambda p, c, l: W.uf("forecast", [p, c, l], "iii>r")  # noqa
        splits = out["splits"]
        # candidate -> member parameter
        key = {"plain": "p", "pipeline": "f__p", "multiplexer": "selected_forecaster", "randomized": "p", "listgrid": "p", "mixedtypes": "p", "replace": "f__p"}[kind]
        cands = out["params"]
        if kind == "randomized":
            P.check("candidates-enumerated", len(cands) == nc and all(set(d) == {"p"} and d["p"] in range(1, 6) for d in cands) and len({d["p"] for d in cands}) == nc)
        elif kind == "multiplexer":
            P.check("candidates-enumerated", [d[key] for d in cands] == ["a", "b"][:nc])
        elif kind == "mixedtypes":
            P.check("candidates-enumerated", [(type(d[key]).__name__, d[key]) for d in cands] == [("int", 1), ("float", 1.0)], {"candidates": [repr(d.get(key)) for d in cands]})
        elif kind == "replace":
            P.check("candidates-enumerated", cands == [{"f": ("member", 7), "f__p": v} for v in range(1, nc + 1)])
        elif kind == "listgrid":
            P.check("candidates-enumerated", cands == [{"p": 1, "q": 5}] + [{"p": v} for v in range(2, nc + 1)])
        else:
            P.check("candidates-enumerated", [d[key] for d in cands] == list(range(1, nc + 1)))
        if len(cands) != len(out["means"]):
            P.fail("candidates-enumerated")
            return

        def member_of(d):
            v = d[key]
            if isinstance(v, float):
                v = int(v)
            return {"a": 1, "b": 2}.get(v, v)

        tf = (lambda v: W.uf("t", [1, v], "ir>r")) if kind in ("pipeline", "replace") else (lambda v: v)
        ti = (lambda v: W.uf("tinv", [1, v], "ir>r")) if kind in ("pipeline", "replace") else (lambda v: v)
        means = []
        fitlog = out["fitlog"]
        nfold = len(splits)
        expected_fits = nfold * len(cands) + (1 if cell["refit"] else 0)
        P.check("same-splits-for-every-candidate", len(fitlog) == expected_fits)
        for j, d in enumerate(cands):
            p = member_of(d)
            tot = 0
            for f_i, (tr, te) in enumerate(splits):
                c = s0 + tr[-1]
                yt = [y[q] for q in te]
                yp = [ti(F(p, c, s0 + q)) for q in te]
                a = yt + yp
                tot = tot + W.uf("score_%d" % len(a), a, "r" * len(a) + ">r")
                if len(fitlog) == expected_fits:
                    e = fitlog[j * nfold + f_i]
                    want_op = "update" if (cell.get("strategy") == "update" and f_i > 0) else "fit"
                    P.check("same-splits-for-every-candidate", e["who"] == p and len(e["idx"]) == len(tr))
                    P.check("evaluation-strategy-honoured", e["op"] == want_op, {"fold": f_i, "op": e["op"], "strategy": cell.get("strategy", "refit")})
                    if want_op == "update" and e["op"] == "update":  # the candidate is re-estimated on every later window (update's default)
                        P.check("evaluation-strategy-honoured", e.get("update_params") is True, {"fold": f_i, "update_params": e.get("update_params")})
                    if kind == "replace":  # the replacement step (q = 7) carrying the candidate's nested value
                        P.check("row-equals-independent-evaluate", e["q"] == 7, {"candidate": j, "q_seen": e["q"]})
                    if kind == "listgrid":  # every candidate = the base forecaster plus exactly its own parameters
                        P.check("row-equals-independent-evaluate", e["q"] == d.get("q", 0), {"candidate": j, "q_seen": e["q"]})
                    for lab, q, v in zip(e["idx"], tr, e["vals"]):
                        P.eq("same-splits-for-every-candidate", lab, s0 + q)
                        P.eq("same-splits-for-every-candidate", v, tf(y[q]))
            if cell.get("nan_candidate") and p == 1:
                means.append(float("nan"))
                P.check("row-equals-independent-evaluate", isinstance(out["means"][j], float) and out["means"][j] != out["means"][j], {"candidate": j, "what": "NaN mean for the candidate that cannot forecast"})
                continue
            means.append(tot / nfold)
            P.eq("row-equals-independent-evaluate", out["means"][j], means[j])
        if "second" in out:
            sec = out["second"]
            d2 = {"what": "second search over the same base forecaster object"}
            P.eq("row-equals-independent-evaluate", sec["base_p"], 0, dict(d2, param="p of the caller's forecaster"))
            P.eq("row-equals-independent-evaluate", sec["base_q"], 0, dict(d2, param="q of the caller's forecaster"))
            P.check("same-splits-for-every-candidate", len(sec["fitlog"]) == 2 * nfold and len(sec["means"]) == 2, d2)
            if len(sec["fitlog"]) == 2 * nfold and len(sec["means"]) == 2:
                for j, qv in enumerate((5, 6)):
                    tot = 0
                    for f_i, (tr, te) in enumerate(splits):
                        e = sec["fitlog"][j * nfold + f_i]
                        P.check("row-equals-independent-evaluate", e["who"] == 0 and e["q"] == qv, dict(d2, candidate=j, p_seen=e["who"], q_seen=e["q"]))
                        c = s0 + tr[-1]
                        a = [y[q_] for q_ in te] + [F(0, c, s0 + q_) for q_ in te]
                        tot = tot + W.uf("score_%d" % len(a), a, "r" * len(a) + ">r")
                    P.eq("row-equals-independent-evaluate", sec["means"][j], tot / nfold, dict(d2, candidate=j))
        bi = out["best_index"]
        P.check("best-params-score-belong-to-best-index", isinstance(bi, int) and 0 <= bi < len(cands))
        if not (isinstance(bi, int) and 0 <= bi < len(cands)):
            return
        isnan_ = lambda v: isinstance(v, float) and v != v  # noqa: E731
        P.check("best-is-optimal-in-declared-direction", not isnan_(means[bi]), {"best_index": bi, "what": "a candidate without a score was selected"})
        if isnan_(means[bi]):
            return
        for j in range(len(cands)):
            if isnan_(means[j]):
                continue
            P.check("best-is-optimal-in-declared-direction", (means[bi] >= means[j]) if cell["gib"] else (means[bi] <= means[j]), {"best_index": bi, "other": j, "greater_is_better": cell["gib"]})
        P.eq("best-params-score-belong-to-best-index", out["best_score"], means[bi])
        P.check("best-params-score-belong-to-best-index", out["best_params"] == cands[bi])
        pb = member_of(cands[bi])
        c1 = s0 + n - 1
        nb = len(inp["u"])
        if cell["refit"]:
            if len(fitlog) == expected_fits:
                e = fitlog[-1]
                P.check("refit-on-whole-series", e["who"] == pb and len(e["idx"]) == n)
                for i, (lab, v) in enumerate(zip(e["idx"], e["vals"])):
                    P.eq("refit-on-whole-series", lab, s0 + i)
                    P.eq("refit-on-whole-series", v, tf(y[i]))
            P.check("predict-equals-direct-forecaster", len(out["pred1"][0]) == 1)
            P.eq("predict-equals-direct-forecaster", out["pred1"][0][0], c1 + 1)
            P.eq("predict-equals-direct-forecaster", out["pred1"][1][0], ti(F(pb, c1, c1 + 1)))
            P.eq("update-and-cutoff-delegate", out["cutoff1"], c1)
            if nb:
                c2 = c1 + nb
                P.eq("update-and-cutoff-delegate", out["cutoff2"], c2)
                P.eq("predict-equals-direct-forecaster", out["pred2"][0][0], c2 + 1)
                P.eq("predict-equals-direct-forecaster", out["pred2"][1][0], ti(F(pb, c2, c2 + 1)))
                ups = [e for e in out["postlog"] if e["op"] == "update"]
                P.check("update-and-cutoff-delegate", len(ups) == 1 and ups[0]["who"] == pb)
                P.check("update-and-cutoff-delegate", all(e.get("update_params") == out["update_params"] for e in ups), {"what": "update_params passed on", "want": out["update_params"]})
                for e in ups[:1]:
                    for i, v in enumerate(e["vals"]):
                        P.eq("update-and-cutoff-delegate", v, tf(inp["u"][i]))
            if "refit_switched_off" in out:
                rs = out["refit_switched_off"]
                P.check("no-refit-raises-NotFittedError", rs["nfe_predict"] and rs["nfe_update"] and not rs["calls"], {"what": "same tuner fitted again with refit=False", "calls": rs["calls"]})
        else:
            P.check("no-refit-raises-NotFittedError", out["nfe_predict"] and out["nfe_update"] and out["nfe_update_predict_single"])
            P.check("no-refit-raises-NotFittedError", not [e for e in out["postlog"] if e["op"] in ("fit", "update", "predict")])

    def signature(self, label, inp, cell):
        if label == "best-is-optimal-in-declared-direction":
            return "tune/%s/%s" % (label, "greater_is_better" if cell["gib"] else "lower_is_better")
        return "tune/%s/%s" % (cell["kind"], label)


HARNESS = C08()


def run_check(tier, seed, jobs=None, only=None):
    from .. import runner

    HARNESS._tier = tier
    return runner.run_check(HARNESS, tier, seed, jobs=jobs, only=only)
