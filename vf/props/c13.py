"""C13 -- series transformers are invertible, index-preserving and aligned in time."""
import types

from ..runner import Harness
from ..hutil import L, S, fresh_ints, fresh_reals
from .stubs import make_member, make_transformer
from .. import msk

DES = "sktime.transformations.series.detrend._deseasonalize"
DET = "sktime.transformations.series.detrend._detrend"


def is_nan(x):
    return isinstance(x, float) and x != x


def _off(inp, i):
    """offset of the i-th time point of the stretch from its first one: contiguous, holed after the first point, or every second point"""
    if inp.get("gapped"):
        return i if i == 0 else i + 1
    if inp.get("strided"):
        return 2 * i
    return i


class C13(Harness):
    pid = "C13"
    labels = (
        "inverse-of-transform-is-identity",
        "same-time-index",
        "seasonal-phase",
        "seasonal-phase-after-update",
        "fit_transform-equals-fit-then-transform",
        "detrend-subtracts-forecast-at-labels",
        "passthrough",
        "adaptor-columnwise",
        "shift-invariant-values",
        "shift-invariant-index",
        "conditional-not-seasonal-is-identity",
    )
    stubs = (
        "statsmodels seasonal_decompose(...).seasonal := a symbolic seasonal vector sigma_0..sigma_{sp-1} tiled from the first training label (both worlds)",
        "scipy.special.boxcox / inv_boxcox, np.log / np.exp := uninterpreted pairs with the ground inverse axiom; Box-Cox lambda (scipy optimiser) := free real",
        "Detrender forecaster := recording member stub (forecast = uninterpreted function of (member, cutoff, label)) or the exact least-squares model of PolynomialTrendForecaster",
        "wrapped sklearn transformer of TabularToSeriesAdaptor := elementwise uninterpreted pair",
        "seasonality test := returns an arbitrary boolean",
    )
    assumptions = ("multiplicative model: seasonal factors non-zero", "training series length >= sp + 1", "Hampel: window_length 3, n_sigma and k positive reals")
    outside = ("the numerical decomposition / ACF test / Box-Cox lambda estimation themselves", "datetime indices")

    def bounds(self, tier):
        q = tier == "quick"
        return {"sp_max": 3 if q else 4, "stretch_len": "1..3", "offsets": "free integers (any sign)", "hampel_n": "4..6", "imputer_n": "3..4"}

    def cells(self, tier):
        out = []
        for model in ("additive", "multiplicative"):
            out.append({"name": "deseasonalizer-%s" % model, "kind": "deseason", "model": model, "cost": 3})
        out.append({"name": "conditional-deseasonalizer", "kind": "conditional", "model": "additive", "cost": 2})
        out.append({"name": "detrender-stub", "kind": "detrend-stub", "cost": 2})
        out.append({"name": "detrender-default-poly", "kind": "detrend-poly", "cost": 2})
        # a trend model that is not translation-equivariant (line through the first training point), small symbolic origin
        out.append({"name": "detrender-poly-nointercept-origin", "kind": "detrend-poly", "nointercept": True, "origin": 3, "cost": 2})
        out.append({"name": "boxcox", "kind": "boxcox", "cost": 1})
        out.append({"name": "log", "kind": "log", "cost": 1})
        out.append({"name": "adaptor", "kind": "adaptor", "cost": 1})
        out.append({"name": "passthrough", "kind": "passthrough", "cost": 1})
        for n in (4, 5, 6):  # the centre-of-window branch of the filter needs >= 6 points with window 3
            out.append({"name": "shift-hampel-n%d" % n, "kind": "hampel", "n": n, "cost": n * 2})
        for m in ("ffill", "bfill", "constant", "mean", "median", "linear", "drift"):
            out.append({"name": "shift-imputer-%s" % m, "kind": "imputer", "method": m, "cost": 2})
        return out

    # ------------------------------------------------------------------
    def overrides(self, kind, cell):
        ov = {}
        ck = cell["kind"]
        holder = self.__dict__.setdefault("_hold", {})
        if ck in ("deseason", "conditional"):
            def seasonal_decompose(z, model=None, period=None, filt=None, two_sided=True, extrapolate_trend=0):
                # an exactly periodic world: the seasonal component of a time point is a function of the time point
                # (sigma[(t - start of the training series) mod sp]), whichever stretch is decomposed
                W = holder[kind]["W"]
                sig = holder[kind]["sigma"]
                n = len(z)
                off = z.index[0] - holder[kind]["s0"]
                vals = [sig[int((off + i) % len(sig))] for i in range(n)]
                return types.SimpleNamespace(seasonal=W.pd.Series(vals, index=z.index))

            ov["statsmodels.tsa.seasonal"] = types.SimpleNamespace(seasonal_decompose=seasonal_decompose)
        if ck == "boxcox":
            def brent(func, brack=None, args=()):
                # the optimum depends on the criterion being optimised (likelihood vs probability-plot correlation)
                return holder[kind]["lam"] if "mle" in getattr(func, "__name__", "mle") else holder[kind]["lam2"]

            if kind == "sym":
                def boxcox(x, lmbda):
                    W = holder[kind]["W"]
                    return W.np.array([self._bc(W, v, lmbda) for v in L(x)])

                def inv_boxcox(x, lmbda):
                    W = holder[kind]["W"]
                    return W.np.array([self._ibc(W, v, lmbda) for v in L(x)])
            else:  # replays and trace validation use scipy's real Box-Cox pair (only the optimiser is pinned)
                from scipy.special import boxcox, inv_boxcox

            ov["scipy.special"] = types.SimpleNamespace(boxcox=boxcox, inv_boxcox=inv_boxcox)
            ov["scipy"] = types.SimpleNamespace(optimize=types.SimpleNamespace(brent=brent, fminbound=brent), special=types.SimpleNamespace(boxcox=boxcox, inv_boxcox=inv_boxcox), stats=None)
            _norm = types.SimpleNamespace(ppf=lambda q: q)
            ov["scipy.stats"] = types.SimpleNamespace(boxcox_llf=None, distributions=types.SimpleNamespace(norm=_norm))
            ov["scipy.stats.morestats"] = types.SimpleNamespace(_boxcox_conf_interval=None, _calc_uniform_order_statistic_medians=lambda n: [0.5] * n)
        if ck in ("detrend-poly", "imputer") and kind == "sym":
            ov["sklearn.linear_model"] = types.SimpleNamespace(LinearRegression=msk.LinearRegression)
            ov["sklearn.pipeline"] = types.SimpleNamespace(make_pipeline=msk.make_pipeline)
            ov["sklearn.preprocessing"] = types.SimpleNamespace(PolynomialFeatures=msk.PolynomialFeatures)
        return ov or None

    @staticmethod
    def _axiom(ax):
        from ..symx import Ctx, unwrap

        if not isinstance(ax, bool):
            Ctx.cur.add(unwrap(ax))
            Ctx.cur._model = None

    def _bc(self, W, v, lam):
        """symbolic Box-Cox: an uninterpreted value r with its definition as ground facts over the engine's log / exp pair
        (lam != 0: lam*r + 1 = exp(lam*log v);  lam == 0: r = log v) and with inv_boxcox(r, lam) = v"""
        r = W.uf("boxcox", [v, lam], "rr>r")
        self._axiom(W.uf("inv_boxcox", [r, lam], "rr>r") == v)
        lg = W.np.log(v)
        if lam != 0:
            self._axiom(lam * r + 1 == W.np.exp(lam * lg))
        else:
            self._axiom(r == lg)
        return r

    def _ibc(self, W, y, lam):
        """symbolic inverse: uninterpreted, with lam != 0: log(x) * lam = log(lam*y + 1) where lam*y + 1 > 0;  lam == 0: x = exp(y)"""
        x = W.uf("inv_boxcox", [y, lam], "rr>r")
        if lam != 0:
            if lam * y + 1 > 0:
                self._axiom(W.np.log(x) * lam == W.np.log(lam * y + 1))
                self._axiom(x > 0)
        else:
            self._axiom(x == W.np.exp(y))
        return x

    # ------------------------------------------------------------------
    def inputs(self, ctx, cell):
        q = self._tier == "quick"
        k = cell["kind"]
        inp = {"s0": ctx.fresh_int("s0")}
        if cell.get("origin"):
            ctx.assume((inp["s0"] >= -cell["origin"]) & (inp["s0"] <= cell["origin"]))

        def choice(name, lo, hi):
            v = ctx.fresh_int(name)
            ctx.assume((v >= lo) & (v <= hi))
            return int(v)

        if k in ("deseason", "conditional"):
            sp = choice("sp", 1, 3 if q else 4)
            inp["sp"] = sp
            inp["sigma"] = fresh_reals(ctx, "sig", sp)
            if cell["model"] == "multiplicative":
                for s in inp["sigma"]:
                    ctx.assume(s != 0)
            inp["ytr"] = fresh_reals(ctx, "y", sp + 1)
            Ln = choice("L", 1, 3)
            inp["z"] = fresh_reals(ctx, "z", Ln)
            inp["d"] = ctx.fresh_int("d")
            inp["gapped"] = bool(ctx.fresh_bool("gapped")) if Ln >= 2 else False
            # every second time point, as an arithmetic RangeIndex (what y.iloc[::2] of a default-indexed series carries)
            inp["strided"] = bool(ctx.fresh_bool("strided")) if (Ln >= 2 and not inp["gapped"]) else False
            if k == "deseason":
                inp["with_update"] = bool(ctx.fresh_bool("with_update"))
                if inp["with_update"]:
                    inp["e"] = ctx.fresh_int("e")
                    inp["u"] = fresh_reals(ctx, "u", 2 if bool(ctx.fresh_bool("short_update")) else 2 * sp)
                    inp["update_params"] = bool(ctx.fresh_bool("update_params"))
            else:
                inp["is_seasonal"] = bool(ctx.fresh_bool("is_seasonal"))
        elif k in ("detrend-stub", "detrend-poly"):
            n = choice("n", 3, 4)
            inp["ytr"] = fresh_reals(ctx, "y", n)
            Ln = choice("L", 1, 3)
            inp["z"] = fresh_reals(ctx, "z", Ln)
            inp["d"] = choice("d", -1, 5)
            inp["with_update"] = bool(ctx.fresh_bool("with_update"))
            if inp["with_update"]:
                inp["u"] = fresh_reals(ctx, "u", 1)
                # the default (polynomial) detrender keeps its fitted line when the update does not re-estimate
                inp["update_params"] = True if k == "detrend-stub" else False
        elif k in ("boxcox", "log", "adaptor", "passthrough"):
            n = choice("n", 2, 3)
            inp["ytr"] = fresh_reals(ctx, "y", n)
            Ln = choice("L", 1, 3)
            inp["z"] = fresh_reals(ctx, "z", Ln)
            inp["d"] = ctx.fresh_int("d")
            if k == "boxcox" and bool(ctx.fresh_bool("int_series")):
                # count data: an integer-typed positive series (the transformed values are real all the same)
                inp["ytr"] = [ctx.fresh_int("yi%d" % i) for i in range(n)]
                inp["z"] = [ctx.fresh_int("zi%d" % i) for i in range(Ln)]
            if k in ("boxcox", "log"):
                for v in inp["ytr"] + inp["z"]:
                    ctx.assume(v > 0)  # positive series, as the transformers require
            if k == "boxcox":
                inp["lam"] = ctx.fresh_real("lam")
                inp["lam2"] = ctx.fresh_real("lam2")
                for l_ in (inp["lam"], inp["lam2"]):  # the optimiser's bracket; larger exponents only test float range
                    ctx.assume((l_ >= -2) & (l_ <= 2))
                inp["method"] = "pearsonr" if bool(ctx.fresh_bool("pearsonr")) else "mle"
            if k == "passthrough":
                inp["passthrough"] = bool(ctx.fresh_bool("passthrough"))
                inp["reused"] = bool(ctx.fresh_bool("reused"))  # the same object was fitted before with the opposite setting
        elif k == "hampel":
            n = cell["n"]
            inp["z"] = fresh_reals(ctx, "z", n)
            if n == 6 and q:
                # quick tier: the first two observations are concrete, which prunes the orderings of the first
                # window while the centre-of-window branch (reached from 6 points on) stays fully symbolic
                from fractions import Fraction

                inp["z"][0], inp["z"][1] = Fraction(1, 2), Fraction(3, 2)
            inp["n_sigma"] = ctx.fresh_real("n_sigma")
            ctx.assume(inp["n_sigma"] > 0)
        elif k == "imputer":
            n = choice("n", 3, 4)
            vals = fresh_reals(ctx, "z", n)
            mask = [bool(ctx.fresh_bool("nan%d" % i)) for i in range(n)]
            if all(mask) or not any(mask):
                ctx.assume(False)
            inp["z"] = [float("nan") if m else v for v, m in zip(vals, mask)]
            inp["value"] = ctx.fresh_real("value")
        return inp

    # ------------------------------------------------------------------
    def scenario(self, W, inp, cell):
        np, pd = W.np, W.pd
        self._curW = W
        k = cell["kind"]
        s0 = inp["s0"]
        hold = self.__dict__.setdefault("_hold", {})
        hold[W.kind] = {"W": W, "sigma": inp.get("sigma"), "lam": inp.get("lam"), "lam2": inp.get("lam2"), "s0": inp["s0"]}
        log = []

        def ser(vals, start):
            return pd.Series(list(vals), index=pd.RangeIndex(start, start + len(vals)))

        def pack(s):
            return [L(s.index), L(s.values)]

        out = {}
        if k in ("hampel", "imputer"):
            if k == "hampel":
                HF = W.load("sktime.transformations.series.outlier_detection").HampelFilter
                mk = lambda: HF(window_length=3, n_sigma=inp["n_sigma"], k=1)  # noqa
            else:
                IM = W.load("sktime.transformations.series.impute").Imputer
                mk = lambda: IM(method=cell["method"], value=inp["value"] if cell["method"] == "constant" else None)  # noqa
            res = {}
            for tag, start in (("shifted", s0), ("origin", 0)):
                z = ser(inp["z"], start)
                try:
                    r = mk().fit(z).transform(z)
                    res[tag] = pack(r)
                except (KeyError, IndexError) as e:
                    res[tag] = {"raised": type(e).__name__}
            return res
        ytr = ser(inp["ytr"], s0)

        def _used(tr):
            """the object whose fit_transform is compared is not fresh: it was fitted on another series before"""
            try:
                tr.fit(ser([v + 1 for v in inp["ytr"]], s0 + 1))
            except Exception as e:  # noqa
                if type(e).__module__.startswith("vf."):
                    raise
            return tr

        if inp.get("gapped"):
            # a stretch with a hole after its first time point (e.g. the forecasts of a gapped horizon)
            z = pd.Series(list(inp["z"]), index=pd.Index([s0 + inp["d"] + (i if i == 0 else i + 1) for i in range(len(inp["z"]))]))
        elif inp.get("strided"):
            z = pd.Series(list(inp["z"]), index=pd.RangeIndex(s0 + inp["d"], s0 + inp["d"] + 2 * len(inp["z"]), 2))
        else:
            z = ser(inp["z"], s0 + inp["d"])
        from sklearn.base import BaseEstimator, TransformerMixin

        class Sk(TransformerMixin, BaseEstimator):
            """stateful: the transform depends on a statistic learnt in fit (the first training value)"""

            def fit(self, X, y=None):
                log.append({"op": "sk.fit", "shape": list(X.shape)})
                self.ref_ = L(X)[0][0]
                return self

            def transform(self, X):
                return np.array([[W.uf("sk", [v, self.ref_], "rr>r") for v in row] for row in L(X)])

            def inverse_transform(self, X):
                return np.array([[W.uf("skinv", [v, self.ref_], "rr>r") for v in row] for row in L(X)])

        if k in ("deseason", "conditional"):
            D = W.load(DES)
            if k == "deseason":
                t = D.Deseasonalizer(sp=inp["sp"], model=cell["model"])
                t2 = D.Deseasonalizer(sp=inp["sp"], model=cell["model"])
            else:
                test = lambda y, sp: inp["is_seasonal"]  # noqa
                t = D.ConditionalDeseasonalizer(seasonality_test=test, sp=inp["sp"], model=cell["model"])
                t2 = D.ConditionalDeseasonalizer(seasonality_test=test, sp=inp["sp"], model=cell["model"])
            if inp.get("gapped") is False and len(inp["z"]) == 1:
                # the object is not fresh: it was fitted before on a series that starts one step earlier (another phase)
                t.fit(ser(list(inp["ytr"]), s0 - 1))
            t.fit(ytr)
            out["ft"] = pack(_used(t2).fit_transform(ytr))
            out["tt"] = pack(t.transform(ytr))
            if inp.get("with_update"):
                t.update(ser(inp["u"], s0 + inp["e"]), update_params=inp["update_params"])
        elif k in ("detrend-stub", "detrend-poly"):
            DT = W.load(DET).Detrender
            if k == "detrend-stub":
                Member = make_member(W, log)
                t, t2 = DT(forecaster=Member(p=1)), DT(forecaster=Member(p=1))
            elif cell.get("nointercept"):
                PT = W.load("sktime.forecasting.trend").PolynomialTrendForecaster
                t, t2 = DT(PT(degree=1, with_intercept=False)), DT(PT(degree=1, with_intercept=False))
            else:
                t, t2 = DT(), DT()
            t.fit(ytr)
            out["ft"] = pack(_used(t2).fit_transform(ytr))
            out["tt"] = pack(t.transform(ytr))
            if inp.get("with_update"):
                t.update(ser(inp["u"], s0 + len(inp["ytr"])), update_params=inp.get("update_params", True))
            out["cutoff"] = S(t.forecaster_.cutoff)
        elif k == "boxcox":
            BC = W.load("sktime.transformations.series.boxcox").BoxCoxTransformer
            t, t2 = BC(method=inp["method"]), BC(method=inp["method"])
            t.fit(ytr)
            out["lambda"] = S(t.lambda_)
            out["ft"] = pack(_used(t2).fit_transform(ytr))
            out["tt"] = pack(t.transform(ytr))
        elif k == "log":
            LT = W.load("sktime.transformations.series.boxcox").LogTransformer
            t, t2 = LT(), LT()
            t.fit(ytr)
            out["ft"] = pack(_used(t2).fit_transform(ytr))
            out["tt"] = pack(t.transform(ytr))
        elif k == "adaptor":
            AD = W.load("sktime.transformations.series.adapt").TabularToSeriesAdaptor
            t, t2 = AD(Sk()), AD(Sk())
            t.fit(ytr)
            out["ft"] = pack(_used(t2).fit_transform(ytr))
            out["tt"] = pack(t.transform(ytr))
            out["fitshape"] = log[0]["shape"]
            # a two-column series (frame) on the same labels: the result keeps the time index as well
            t3 = AD(Sk())
            t3.fit(pd.DataFrame({"a": list(inp["ytr"]), "b": list(reversed(inp["ytr"]))}, index=ytr.index))
            zf = pd.DataFrame({"a": list(inp["z"]), "b": list(inp["z"])}, index=z.index)
            r3 = t3.transform(zf)
            b3 = t3.inverse_transform(r3)
            out["frame"] = {"zt_index": L(r3.index), "back_index": L(b3.index), "shape": [int(v) for v in r3.shape], "zt_a": L(r3.iloc[:, 0].values)}
        elif k == "passthrough":
            # the wrapped transformer is stateful (its transform depends on what fit saw): transform must not re-estimate it
            AD = W.load("sktime.transformations.series.adapt").TabularToSeriesAdaptor
            OP = W.load("sktime.transformations.series.compose").OptionalPassthrough
            t, t2 = OP(AD(Sk()), passthrough=inp["passthrough"]), OP(AD(Sk()), passthrough=inp["passthrough"])
            if inp.get("reused"):
                t.set_params(passthrough=not inp["passthrough"])
                t.fit(ytr)
                t.set_params(passthrough=inp["passthrough"])
            t.fit(ytr)
            out["ft"] = pack(_used(t2).fit_transform(ytr))
            out["tt"] = pack(t.transform(ytr))
            if not inp["passthrough"] and not inp.get("reused"):
                # one transformer object configured into two wrappers: each wrapper fits its own copy
                base = AD(Sk())
                wa, wb = OP(base), OP(base)
                wa.fit(ytr)
                first = pack(wa.transform(z))
                wb.fit(ser([v + 1 for v in inp["ytr"]], s0 + 1))
                out["two_wrappers"] = {"first": first, "after_other_fit": pack(wa.transform(z)), "prototype_fitted": hasattr(base.transformer, "ref_") or bool(getattr(base, "_is_fitted", False))}
        zt = t.transform(z)
        out["zt"] = pack(zt)
        back = t.inverse_transform(zt)
        out["back"] = pack(back)
        return out

    def comparable(self, out, cell):
        if cell["kind"] in ("boxcox", "log"):
            return {k: ([v[0]] if isinstance(v, list) and k in ("zt", "ft", "tt") else v) for k, v in out.items() if k != "lambda"}
        return out

    # ------------------------------------------------------------------
    def oracle(self, P, inp, out, cell):
        W = self._curW
        k = cell["kind"]
        s0 = inp["s0"]
        if k in ("hampel", "imputer"):
            a, b = out["shifted"], out["origin"]
            P.check("shift-invariant-values", not isinstance(a, dict) and not isinstance(b, dict), {"shifted": a if isinstance(a, dict) else None, "origin": b if isinstance(b, dict) else None})
            if isinstance(a, dict) or isinstance(b, dict):
                return
            P.check("shift-invariant-index", len(a[0]) == len(b[0]) == len(inp["z"]))
            for i, (la, lb) in enumerate(zip(a[0], b[0])):
                P.eq("shift-invariant-index", la, s0 + i)
                P.eq("shift-invariant-index", lb, i)
            for va, vb in zip(a[1], b[1]):
                P.eq("shift-invariant-values", va, vb)
            return
        z, d = inp["z"], inp["d"]
        zt_i, zt = out["zt"]
        bk_i, bk = out["back"]
        n_tr = len(inp["ytr"])
        P.check("same-time-index", len(zt_i) == len(z) and len(bk_i) == len(z))
        for i in range(min(len(z), len(zt_i), len(bk_i))):
            off_i = _off(inp, i)
            P.eq("same-time-index", zt_i[i], s0 + d + off_i)
            P.eq("same-time-index", bk_i[i], s0 + d + off_i)
            if k not in ("adaptor", "passthrough"):  # there the wrapped stub is not an inverse pair: data flow is checked below
                P.eq("inverse-of-transform-is-identity", bk[i], z[i])
        # fit_transform == fit().transform on the training series
        P.check("fit_transform-equals-fit-then-transform", len(out["ft"][0]) == n_tr and len(out["tt"][0]) == n_tr)
        for a, b, la, lb, i in zip(out["ft"][1], out["tt"][1], out["ft"][0], out["tt"][0], range(n_tr)):
            P.eq("fit_transform-equals-fit-then-transform", a, b)
            P.eq("same-time-index", la, s0 + i)
            P.eq("same-time-index", lb, s0 + i)
        if k in ("deseason", "conditional"):
            sp, sig = inp["sp"], inp["sigma"]
            lab = "seasonal-phase-after-update" if inp.get("with_update") else "seasonal-phase"
            seasonal = k == "deseason" or inp["is_seasonal"]
            for i in range(len(z)):
                if not seasonal:
                    P.eq("conditional-not-seasonal-is-identity", zt[i], z[i])
                    continue
                ph = (d + _off(inp, i)) % sp  # position modulo the period relative to the training series
                phc = int(ph) if P.sym else ph
                want = z[i] - sig[phc] if cell["model"] == "additive" else z[i] / sig[phc]
                P.eq(lab, zt[i], want)
        elif k == "detrend-stub":
            c = out["cutoff"]
            P.eq("detrend-subtracts-forecast-at-labels", c, s0 + n_tr - 1 + (1 if inp.get("with_update") else 0))
            for i in range(len(z)):
                lab_i = s0 + d + i
                P.eq("detrend-subtracts-forecast-at-labels", zt[i], z[i] - W.uf("forecast", [1, c, lab_i], "iii>r"))
        elif k == "detrend-poly":
            # the least-squares line through the training series, evaluated at the labels of z (textbook closed form)
            y = inp["ytr"]
            n = n_tr
            tbar = (n - 1) / 2 if not P.sym else __import__("fractions").Fraction(n - 1, 2)
            ybar = sum(y) / n
            sxx = sum((t - tbar) ** 2 for t in range(n))
            slope = sum((t - tbar) * (y[t] - ybar) for t in range(n)) / sxx
            if cell.get("nointercept"):
                # the line through (start of the training series, 0): time is counted from the training start
                tbar, ybar = 0, 0
                slope = sum(t * y[t] for t in range(n)) / sum(t * t for t in range(n))
            for i in range(len(z)):
                tpos = d + i
                P.eq("detrend-subtracts-forecast-at-labels", zt[i], z[i] - (ybar + slope * (tpos - tbar)))
        elif k == "boxcox":
            lam = inp["lam"] if inp["method"] == "mle" else inp["lam2"]
            P.eq("fit_transform-equals-fit-then-transform", out["lambda"], lam, {"what": "lambda of the requested method"})
            for i in range(len(z)):
                if P.sym:
                    P.eq("same-time-index", zt[i], W.uf("boxcox", [z[i], lam], "rr>r"))
        elif k == "adaptor":
            fr = out["frame"]
            P.check("same-time-index", fr["shape"] == [len(z), 2] and len(fr["zt_index"]) == len(z) and len(fr["back_index"]) == len(z), {"what": "two-column series", "shape": fr["shape"]})
            for i in range(min(len(z), len(fr["zt_index"]), len(fr["back_index"]))):
                off_i = _off(inp, i)
                P.eq("same-time-index", fr["zt_index"][i], s0 + d + off_i, {"what": "two-column series"})
                P.eq("same-time-index", fr["back_index"][i], s0 + d + off_i, {"what": "two-column series (inverse)"})
            P.check("adaptor-columnwise", out["fitshape"] == [n_tr, 1])
            ref = inp["ytr"][0]  # the wrapped transformer was fitted on the training series only
            for i in range(len(z)):
                P.eq("adaptor-columnwise", zt[i], W.uf("sk", [z[i], ref], "rr>r"))
                P.eq("adaptor-columnwise", bk[i], W.uf("skinv", [W.uf("sk", [z[i], ref], "rr>r"), ref], "rr>r"))
        elif k == "passthrough":
            if "two_wrappers" in out:
                tw = out["two_wrappers"]
                P.check("passthrough", not tw["prototype_fitted"], {"what": "the transformer object passed to the constructor was fitted in place"})
                for va, vb in zip(tw["first"][1], tw["after_other_fit"][1]):
                    P.eq("passthrough", vb, va, {"what": "another wrapper around the same transformer object was fitted in between"})
            for i in range(len(z)):
                if inp["passthrough"]:
                    P.eq("passthrough", zt[i], z[i])
                    P.eq("passthrough", bk[i], z[i])
                else:
                    ref = inp["ytr"][0]  # the wrapped transformer's state comes from the training series, whatever is transformed later
                    P.eq("passthrough", zt[i], W.uf("sk", [z[i], ref], "rr>r"))
                    P.eq("passthrough", bk[i], W.uf("skinv", [W.uf("sk", [z[i], ref], "rr>r"), ref], "rr>r"))

    def signature(self, label, inp, cell):
        return "%s/%s" % (cell["name"], label)


HARNESS = C13()


def run_check(tier, seed, jobs=None, only=None):
    from .. import runner

    HARNESS._tier = tier
    return runner.run_check(HARNESS, tier, seed, jobs=jobs, only=only)
