"""C10 -- updating with new data is equivalent to having observed it, for every history."""
from ..runner import Harness
from ..hutil import L, S, fresh_ints, fresh_reals, increasing
from .stubs import make_member, make_transformer

NAIVE = "sktime.forecasting.naive"
SPLIT = "sktime.forecasting.model_selection._split"

PROGRAMS = {
    "quick": [["U1", "P"], ["U0", "P"], ["P", "U1", "P"], ["U1", "U0", "P"], ["U0", "U1", "P"], ["U0", "R1", "P"], ["U1", "PA"], ["U0", "PA"], ["S1"], ["S0"], ["UP1"], ["UP0"], ["U1", "UP1"], ["UP1", "P"]],
    "thorough": [["U1", "P"], ["U0", "P"], ["P", "U1", "P"], ["P", "U0", "P"], ["U1", "U0", "P"], ["U0", "U1", "P"], ["U0", "R1", "P"], ["R1", "P"], ["U1", "PA"], ["U0", "PA"], ["U1", "U0", "PA"], ["U1", "U1", "P"], ["U0", "U0", "P"], ["S1"], ["S0"], ["S1", "P"], ["U1", "S0"], ["UP1"], ["UP0"],
                 ["U1", "UP1"], ["U0", "UP0"], ["UP1", "P"], ["UP0", "P"], ["UP1", "U1", "P"]],
}
KINDS = ["naive-last", "naive-mean-wlnone", "naive-mean-wl2", "member", "member-selffh", "ensemble", "pipeline", "stacking"]


def is_nan(x):
    return isinstance(x, float) and x != x


class C10(Harness):
    pid = "C10"
    labels = (
        "update-accepted",
        "remembered-data-is-union-later-wins",
        "cutoff-after-update",
        "forecast-index-from-new-cutoff",
        "refit-equals-fresh-fit-on-union",
        "no-refit-keeps-fitted-params",
        "update_predict-equals-single-steps",
        "update_predict-restores-cutoff",
        "composite-propagates-update",
    )
    stubs = (
        "member := recording sktime forecaster stub with a custom update (forecast = uninterpreted function of (member, cutoff, label))",
        "pipeline transformer := elementwise uninterpreted t / tinv",
        "update_predict reference := a twin forecaster driven through the same history and then through explicit update(window) / predict(fh) calls for the windows of the real splitter",
    )
    assumptions = (
        "batches arrive in time order; the second batch may overlap the first by one label (with a different value)",
        "update_predict is given a stretch that starts right after the data seen so far or overlaps it by one label",
    )
    outside = ("update_predict(update_params=True) over a stretch that overlaps seen data (repeated cutoff labels in the result frame)", "histories longer than the enumerated programs", "exogenous data", "datetime indices")

    def overrides(self, kind, cell):
        if cell["kind"] == "poly" and kind == "sym":
            import types
            from .. import msk

            return {
                "sklearn.linear_model": types.SimpleNamespace(LinearRegression=msk.LinearRegression),
                "sklearn.pipeline": types.SimpleNamespace(make_pipeline=msk.make_pipeline),
                "sklearn.preprocessing": types.SimpleNamespace(PolynomialFeatures=msk.PolynomialFeatures),
            }
        return None

    def bounds(self, tier):
        return {"programs": PROGRAMS[tier], "fit_len": "2..3", "batch_len": "1..2 (update_predict: max(fh)+1..3, so that the moving window fits)", "fh_steps": "1..2, h <= 2", "overlap": "0..1"}

    def cells(self, tier):
        out = []
        for k in KINDS:
            for prog in PROGRAMS[tier]:
                if k in ("member", "ensemble", "pipeline", "stacking") and any(o.startswith("UP") for o in prog):
                    continue  # update_predict of composites: twin comparison needs window forecasters
                if k == "stacking" and "PA" in prog:
                    continue  # (the stacker's hold-out window cannot hold a far absolute horizon on these short series)
                if k == "member-selffh" and not any(o.startswith("UP") for o in prog):
                    continue  # (same as "member" there)
                out.append({"name": "%s-%s" % (k, "".join(prog)), "kind": k, "prog": prog, "cost": len(prog)})
        # a trend forecaster (fitted parameters = a line over time counted from the training start): differential against
        # fresh objects -- fitted on the union after a refitting update; fitted on the data of the last refit and asked for
        # the same time points after an update without refit
        for prog in (["U1", "P"], ["U0", "P"], ["U1", "U0", "P"], ["U0", "U1", "P"]):
            out.append({"name": "poly-%s" % "".join(prog), "kind": "poly", "prog": prog, "cost": 2})
        # a training series of integer dtype (counts), later batches real-valued
        for k in ("naive-last", "naive-mean-wlnone"):
            for prog in (["U1", "P"], ["U0", "P"], ["UP0"]):
                out.append({"name": "%s-inty1-%s" % (k, "".join(prog)), "kind": k, "prog": prog, "int_y1": True, "cost": len(prog)})
        # an update_predict that is aborted by an exception at a later moving cutoff: the own cutoff is still restored
        for prog in (["UPF0", "P"], ["UPF1", "P"]):
            out.append({"name": "member-failing-%s" % "".join(prog), "kind": "member-failing", "prog": prog, "cost": 2})
        return out

    def inputs(self, ctx, cell):
        prog = cell["prog"]
        n1 = ctx.fresh_int("n1")
        ctx.assume((n1 >= 2) & (n1 <= 3))
        n1 = int(n1)
        inp = {"s0": ctx.fresh_int("s0"), "y1": (fresh_ints if cell.get("int_y1") else fresh_reals)(ctx, "a", n1), "batches": [], "fh_in_fit": bool(ctx.fresh_bool("fh_in_fit"))}
        K = ctx.fresh_int("K")
        ctx.assume((K >= 1) & (K <= 2))
        hs = fresh_ints(ctx, "h", int(K))
        increasing(ctx, hs, lo=1)
        ctx.assume(hs[-1] <= 2)
        inp["fh"] = [int(h) for h in hs]
        if cell["kind"] == "stacking":
            if not inp["fh_in_fit"] or inp["fh"][-1] > n1 - 1:
                ctx.assume(False)  # the stacker needs its horizon at fit and a hold-out window of max(fh) points
        # update_predict may be asked for other steps than the horizon known so far (fit / earlier predict)
        inp["fh_up"] = [h + 1 for h in inp["fh"]] if inp["fh_in_fit"] else list(inp["fh"])
        has_up = any(o in ("UP0", "UP1") for o in prog)
        # the splitter of update_predict: windows of one point moved by one, or windows of two points moved by two
        # (each window then brings two observations the forecaster has not seen)
        inp["up_wl"] = 1
        if has_up:
            uw = ctx.fresh_int("up_wl")
            ctx.assume((uw >= 1) & (uw <= 2))
            inp["up_wl"] = int(uw)
        # ... and a horizon that also asks for the cutoff point itself (step 0, an in-sample forecast: window forecasters
        # produce it through a nested moving cutoff)
        if has_up and cell["kind"].startswith("naive") and n1 == 3 and inp["up_wl"] == 1 and len(inp["fh_up"]) == 1 and bool(ctx.fresh_bool("up_insample")):
            inp["fh_up"] = [0] + inp["fh_up"]
        ov = ctx.fresh_int("ov")
        ctx.assume((ov >= 0) & (ov <= 1))
        inp["ov"] = int(ov)
        first = True
        if "PA" in prog and not inp["fh_in_fit"]:
            ctx.assume(False)  # "PA": predict() without arguments for an absolute horizon given at fit
        for i, op in enumerate(prog):
            if op in ("P", "PA"):
                continue
            if op == "R1":  # a revision-only batch: the last remembered label again, with another value, refitting
                inp["batches"].append({"ov": 1, "vals": fresh_reals(ctx, "b%d_" % i, 1)})
                first = False
                continue
            m = ctx.fresh_int("m%d" % i)
            if op.startswith("UP"):
                if op.startswith("UPF"):
                    ctx.assume((m >= inp["fh_up"][-1] + 1) & (m <= inp["fh_up"][-1] + 2))
                else:
                    ctx.assume((m >= inp["fh_up"][-1] + inp["up_wl"]) & (m <= inp["fh_up"][-1] + inp["up_wl"] + 1))
            else:
                ctx.assume((m >= 1) & (m <= 2))
            m = int(m)
            if op.startswith("UPF"):
                fs = ctx.fresh_int("fail_step")  # the moving cutoff (counted from the own one) at which the member cannot forecast
                ctx.assume((fs >= 1) & (fs <= m - inp["fh_up"][-1]))
                inp["fail_step"] = int(fs)
            o = inp["ov"] if (first and op not in ("UP1", "UPF0", "UPF1")) else 0  # (a refitting update_predict over an overlapping stretch repeats a cutoff label: outside)
            inp["batches"].append({"ov": o, "vals": fresh_reals(ctx, "b%d_" % i, m)})
            first = False
        return inp

    # ------------------------------------------------------------------
    def _build(self, W, kind, log):
        NF = W.load(NAIVE).NaiveForecaster
        if kind == "naive-last":
            return NF(strategy="last")
        if kind == "naive-mean-wlnone":
            return NF(strategy="mean")
        if kind == "naive-mean-wl2":
            return NF(strategy="mean", window_length=2)
        Member = make_member(W, log)
        if kind == "member":
            return Member(p=1)
        if kind == "member-failing":
            class Failing(Member):
                FAIL_AT = None

                def _predict(self, fh, X=None, return_pred_int=False, alpha=None):
                    if Failing.FAIL_AT is not None and bool(self.cutoff == Failing.FAIL_AT):
                        raise RuntimeError("stub: cannot forecast from this cutoff")
                    return Member._predict(self, fh, X, return_pred_int, alpha)

            return Failing(p=1)
        if kind == "member-selffh":
            class SelfFh(Member):
                """like the trend / stacking forecasters: _predict reads the stored horizon instead of its argument"""

                def _predict(self, fh, X=None, return_pred_int=False, alpha=None):
                    return Member._predict(self, self.fh, X, return_pred_int, alpha)

            return SelfFh(p=1)
        if kind == "ensemble":
            ENS = W.load("sktime.forecasting.compose._ensemble").EnsembleForecaster
            return ENS([("a", NF(strategy="last")), ("b", Member(p=2))])
        if kind == "stacking":
            from .stubs import make_regressor

            STK = W.load("sktime.forecasting.compose._stack").StackingForecaster
            return STK([("a", Member(p=1)), ("b", Member(p=2))], final_regressor=make_regressor(W, log)())
        T, _ = make_transformer(W, log, stateful=True)
        PIPE = W.load("sktime.forecasting.compose._pipeline").TransformedTargetForecaster
        return PIPE([("t", T(tag=1)), ("f", Member(p=3))])

    def _poly(self, W, inp, cell):
        np, pd = W.np, W.pd
        PT = W.load("sktime.forecasting.trend").PolynomialTrendForecaster
        FH = W.load("sktime.forecasting.base").ForecastingHorizon
        s0 = inp["s0"]
        fh = np.array(inp["fh"])
        data = list(inp["y1"])
        y1 = pd.Series(data, index=pd.RangeIndex(s0, s0 + len(data)))
        f = PT(degree=1).fit(y1)
        fitted_on = list(data)  # what the last (re)fit saw
        bi = 0
        pred = None
        for op in cell["prog"]:
            if op == "P":
                p = f.predict(fh)
                pred = [L(p.index), L(p.values)]
                continue
            b = inp["batches"][bi]
            bi += 1
            yb = pd.Series(b["vals"], index=pd.RangeIndex(s0 + len(data), s0 + len(data) + len(b["vals"])))
            f.update(yb, update_params=op.endswith("1"))
            data += list(b["vals"])
            if op.endswith("1"):
                fitted_on = list(data)
        cutoff = s0 + len(data) - 1
        labels = [cutoff + h for h in inp["fh"]]
        fresh = PT(degree=1).fit(pd.Series(fitted_on, index=pd.RangeIndex(s0, s0 + len(fitted_on))))
        q = fresh.predict(FH(np.array(labels), is_relative=False))
        return {"pred": pred, "cutoff": S(f.cutoff), "want_cutoff": cutoff, "labels": labels, "reference": [L(q.index), L(q.values)], "refit_last": len(fitted_on) == len(data)}

    def scenario(self, W, inp, cell):
        np, pd = W.np, W.pd
        self._curW = W
        if cell["kind"] == "poly":
            return self._poly(W, inp, cell)
        sp = W.load(SPLIT)
        kind, prog = cell["kind"], cell["prog"]
        s0 = inp["s0"]
        log, tlog = [], []
        f = self._build(W, kind, log)
        twin = self._build(W, kind, tlog)
        fh = np.array(inp["fh"])
        y1 = pd.Series(inp["y1"], index=pd.RangeIndex(s0, s0 + len(inp["y1"])))
        abs_labels = None
        if "PA" in prog:
            # the horizon is a set of absolute time points beyond every later batch; it is given once, at fit
            FH = W.load("sktime.forecasting.base").ForecastingHorizon
            abs_labels = [s0 + len(inp["y1"]) + 5 + h for h in inp["fh"]]
        for g in (f, twin):
            if abs_labels is not None:
                g.fit(y1, fh=FH(np.array(abs_labels), is_relative=False))
            elif inp["fh_in_fit"]:
                g.fit(y1, fh=fh)
            else:
                g.fit(y1)
        nxt = len(inp["y1"])  # offset of the next fresh label
        steps = []
        bi = 0

        def snap(g):
            return {"yidx": L(g._y.index), "yvals": L(g._y.values), "cutoff": S(g.cutoff)}

        for op in prog:
            rec = {"op": op}
            try:
                if op == "P":
                    p = f.predict(fh)
                    twin.predict(fh)
                    rec["pred"] = [L(p.index), L(p.values)]
                elif op == "PA":
                    p = f.predict()
                    rec["pred"] = [L(p.index), L(p.values)]
                else:
                    b = inp["batches"][bi]
                    bi += 1
                    start = nxt - b["ov"]
                    yb = pd.Series(b["vals"], index=pd.RangeIndex(s0 + start, s0 + start + len(b["vals"])))
                    rec["start"] = start
                    nxt = start + len(b["vals"])
                    up = op.endswith("1")
                    if op in ("U1", "U0", "R1"):
                        f.update(yb, update_params=up)
                        twin.update(yb, update_params=up)
                    elif op in ("S1", "S0"):
                        p = f.update_predict_single(yb, fh, update_params=up)
                        twin.update_predict_single(yb, fh, update_params=up)
                        rec["pred"] = [L(p.index), L(p.values)]
                    elif op.startswith("UPF"):
                        fh_up = np.array(inp["fh_up"])
                        cv = sp.SlidingWindowSplitter(fh=fh_up, window_length=1, step_length=1, start_with_window=False)
                        rec["cutoff_before"] = S(f.cutoff)
                        type(f).FAIL_AT = f.cutoff + inp["fail_step"]
                        try:
                            f.update_predict(yb, cv, update_params=up)
                            rec["aborted"] = False
                        except RuntimeError:
                            rec["aborted"] = True
                        type(f).FAIL_AT = None
                        nxt = start  # (what was absorbed before the failure is not judged)
                    else:
                        fh_up = np.array(inp["fh_up"])
                        cv = sp.SlidingWindowSplitter(fh=fh_up, window_length=inp.get("up_wl", 1), step_length=inp.get("up_wl", 1), start_with_window=False)
                        before = S(f.cutoff)
                        r = f.update_predict(yb, cv, update_params=up)
                        rec["cutoff_before"] = before
                        if len(inp["fh_up"]) == 1:
                            rec["up"] = {"kind": "series", "idx": L(r.index), "vals": L(r.values)}
                        elif not hasattr(r, "columns"):  # one moving cutoff only: the one-column frame comes back as a series
                            rec["up"] = {"kind": "onecol", "idx": L(r.index), "vals": L(r.values)}
                        else:
                            rec["up"] = {"kind": "frame", "cols": [S(c) for c in r.columns], "idx": L(r.index), "vals": [L(r.iloc[:, j].values) for j in range(r.shape[1])]}
                        ref = []
                        if b["ov"]:
                            twin._set_cutoff(yb.index[0] - 1)  # the reference walks the stretch from just before its first label
                        for win, _ in cv.split(yb):
                            yw = yb.iloc[win]
                            twin.update(yw, update_params=up)
                            q = twin.predict(fh_up)
                            ref.append({"cutoff": S(twin.cutoff), "idx": L(q.index), "vals": L(q.values), "win": L(win)})
                        rec["ref"] = ref
                        rec["twin_after"] = snap(twin)
                        # update_predict only absorbs the windows of its splitter (the last max(fh) points of the stretch are
                        # test points only): the next fresh label is the first one the forecaster has not been given
                        last_fed = max([w for r_ in ref for w in r_["win"]], default=-1)
                        nxt = start + last_fed + 1
            except ValueError as e:
                rec["raised"] = "ValueError"
                steps.append(rec)
                break
            rec["state"] = snap(f)
            steps.append(rec)
        return {"steps": steps, "log": [e for e in log if e["op"] in ("update", "fit", "t.update")]}

    # ------------------------------------------------------------------
    def oracle(self, P, inp, out, cell):
        W = self._curW
        kind = cell["kind"]
        if kind == "poly":
            P.eq("cutoff-after-update", out["cutoff"], out["want_cutoff"])
            idx, vals = out["pred"]
            P.check("forecast-index-from-new-cutoff", len(idx) == len(inp["fh"]))
            lab = "refit-equals-fresh-fit-on-union" if out["refit_last"] else "no-refit-keeps-fitted-params"
            for a, want_lab, v, r in zip(idx, out["labels"], vals, out["reference"][1]):
                P.eq("forecast-index-from-new-cutoff", a, want_lab)
                P.eq(lab, v, r, {"what": "fresh forecaster fitted on the data of the last (re)fit, asked for the same time points"})
            return
        s0, fh = inp["s0"], inp["fh"]
        mem = {i: v for i, v in enumerate(inp["y1"])}  # offset -> value
        cutoff_off = len(inp["y1"]) - 1
        fitted_len = len(inp["y1"])
        have_fh = inp["fh_in_fit"]
        F = lambda p, c, l: W.uf("forecast", [p, c, l], "iii>r")  # noqa
        tstate = [0]  # the pipeline's transformer is stateful: every update with update_params=True moves it
        Tf = lambda v: W.uf("t", [1 + 100 * tstate[0], v], "ir>r")  # noqa
        Ti = lambda v: W.uf("tinv", [1 + 100 * tstate[0], v], "ir>r")  # noqa
        bi = 0

        def expect(h, co, flen):
            """textbook forecast h steps after offset `co` from the remembered data"""
            offs = sorted(k for k in mem if k <= co)
            c = s0 + co
            if kind == "naive-last":
                return mem[offs[-1]]
            if kind == "naive-mean-wl2":
                w = [mem[k] for k in offs[-2:]]
                return sum(w) / len(w)
            if kind == "naive-mean-wlnone":
                w = [mem[k] for k in offs[-flen:]]
                return sum(w) / len(w)
            if kind in ("member", "member-selffh", "member-failing"):
                return F(1, c, c + h)
            if kind == "ensemble":
                return (mem[offs[-1]] + F(2, c, c + h)) / 2
            if kind == "stacking":
                return W.uf("meta_2", [F(1, c, c + h), F(2, c, c + h)], "rr>r")
            return Ti(F(3, c, c + h))

        def check_state(st, label_prefix=""):
            offs = sorted(mem)
            P.check("remembered-data-is-union-later-wins", len(st["yidx"]) == len(offs))
            if len(st["yidx"]) == len(offs):
                for a, v, k in zip(st["yidx"], st["yvals"], offs):
                    P.eq("remembered-data-is-union-later-wins", a, s0 + k)
                    P.eq("remembered-data-is-union-later-wins", v, mem[k])
            P.eq("cutoff-after-update", st["cutoff"], s0 + cutoff_off)

        def check_pred(pred, co, flen, label):
            idx, vals = pred
            P.check("forecast-index-from-new-cutoff", len(idx) == len(fh))
            for a, v, h in zip(idx, vals, fh):
                P.eq("forecast-index-from-new-cutoff", a, s0 + co + h)
                P.eq(label, v, expect(h, co, flen))

        last_mode = "refit-equals-fresh-fit-on-union"
        for st in out["steps"]:
            op = st["op"]
            if "raised" in st:
                # an update / predict of a legal history must not be refused
                P.check("update-accepted", False, {"op": op, "have_fh": have_fh})
                return
            P.check("update-accepted", True)
            if op == "P":
                have_fh = True
                check_pred(st["pred"], cutoff_off, fitted_len, last_mode)
                if kind != "member-failing":
                    check_state(st["state"])
                continue
            if op.startswith("UPF"):
                bi += 1
                have_fh = True
                P.check("update_predict-restores-cutoff", st["aborted"], {"what": "the stub's failure did not surface"})
                P.eq("update_predict-restores-cutoff", st["state"]["cutoff"], st["cutoff_before"], {"what": "after an aborted update_predict"})
                continue
            if op == "PA":
                # the remembered absolute horizon still means the same time points after the cutoff has moved
                idx, vals = st["pred"]
                P.check("forecast-index-from-new-cutoff", len(idx) == len(fh))
                for a, v, h in zip(idx, vals, fh):
                    lab_off = len(inp["y1"]) + 5 + h
                    P.eq("forecast-index-from-new-cutoff", a, s0 + lab_off, {"what": "absolute horizon given at fit"})
                    P.eq(last_mode, v, expect(lab_off - cutoff_off, cutoff_off, fitted_len))
                check_state(st["state"])
                continue
            b = inp["batches"][bi]
            bi += 1
            start = st["start"]
            up = op.endswith("1")
            if op in ("U1", "U0", "S1", "S0", "R1"):
                if up and kind == "pipeline":
                    tstate[0] += 1
                for i, v in enumerate(b["vals"]):
                    mem[start + i] = v
                cutoff_off = start + len(b["vals"]) - 1
                if up:
                    fitted_len = len(mem)
                    last_mode = "refit-equals-fresh-fit-on-union"
                else:
                    last_mode = "no-refit-keeps-fitted-params"
                if op in ("S1", "S0"):
                    have_fh = True
                    check_pred(st["pred"], cutoff_off, fitted_len, last_mode)
                check_state(st["state"])
            else:  # update_predict
                have_fh = True
                P.eq("update_predict-restores-cutoff", st["state"]["cutoff"], st["cutoff_before"])
                ref = st["ref"]
                upo = st["up"]
                # independent expectations for the twin's single steps
                co = start - 1  # the walk starts just before the stretch (= the cutoff unless the stretch overlaps seen data)
                fl = fitted_len
                for r in ref:
                    for w in r["win"]:
                        mem[start + w] = b["vals"][w]
                    if r["win"]:
                        co = start + r["win"][-1]
                    if up:
                        fl = len(mem)
                    if b["ov"]:
                        # a stretch that overlaps seen data: which cutoff the first (empty-window) step forecasts from is
                        # not fixed by the property (a refitting update re-anchors at the end of the remembered data);
                        # only the equality with the explicit single steps, the remembered data and the restored cutoff are judged
                        continue
                    P.eq("update_predict-equals-single-steps", r["cutoff"], s0 + co)
                    P.check("update_predict-equals-single-steps", len(r["idx"]) == len(inp["fh_up"]))
                    for a, v, h in zip(r["idx"], r["vals"], inp["fh_up"]):
                        P.eq("update_predict-equals-single-steps", a, s0 + co + h)
                        if h <= 0:
                            continue  # (in-sample value: judged through the equality with the explicit single steps)
                        P.eq("refit-equals-fresh-fit-on-union" if up else "no-refit-keeps-fitted-params", v, expect(h, co, fl))
                if up:
                    fitted_len = fl
                last_mode = "refit-equals-fresh-fit-on-union" if up else "no-refit-keeps-fitted-params"
                # the result equals the sequence of single steps, labelled by cutoffs
                if upo["kind"] == "series":
                    flat_i = [r["idx"][0] for r in ref]
                    flat_v = [r["vals"][0] for r in ref]
                    P.check("update_predict-equals-single-steps", len(upo["idx"]) == len(ref))
                    for a, v, a2, v2 in zip(upo["idx"], upo["vals"], flat_i, flat_v):
                        P.eq("update_predict-equals-single-steps", a, a2)
                        P.eq("update_predict-equals-single-steps", v, v2)
                elif upo["kind"] == "onecol":
                    P.check("update_predict-equals-single-steps", len(ref) == 1 and len(upo["idx"]) == len(ref[0]["idx"]))
                    if len(ref) == 1:
                        for a, v, a2, v2 in zip(upo["idx"], upo["vals"], ref[0]["idx"], ref[0]["vals"]):
                            P.eq("update_predict-equals-single-steps", a, a2)
                            P.eq("update_predict-equals-single-steps", v, v2)
                else:
                    P.check("update_predict-equals-single-steps", len(upo["cols"]) == len(ref))
                    if len(upo["cols"]) == len(ref):
                        for j, r in enumerate(ref):
                            P.eq("update_predict-equals-single-steps", upo["cols"][j], r["cutoff"])
                            col = upo["vals"][j]
                            for a, v in zip(r["idx"], r["vals"]):
                                hit = [col[i] for i, lab in enumerate(upo["idx"]) if bool(lab == a)]
                                P.check("update_predict-equals-single-steps", len(hit) == 1)
                                if hit:
                                    P.eq("update_predict-equals-single-steps", hit[0], v)
                            nn = sum(1 for v in col if not is_nan(v))
                            P.check("update_predict-equals-single-steps", nn == len(r["idx"]))
                # remembered data: everything that was fed, cutoff restored
                st2 = st["state"]
                offs = sorted(mem)
                P.check("remembered-data-is-union-later-wins", len(st2["yidx"]) == len(offs))
                if len(st2["yidx"]) == len(offs):
                    for a, v, k in zip(st2["yidx"], st2["yvals"], offs):
                        P.eq("remembered-data-is-union-later-wins", a, s0 + k)
                        P.eq("remembered-data-is-union-later-wins", v, mem[k])
                # own cutoff unchanged; later forecasts are made from it
        # composites: inner estimators received every batch (pipeline: transformed)
        if kind in ("ensemble", "pipeline", "member", "stacking"):
            ups = [e for e in out["log"] if e["op"] == "update"]
            if kind == "stacking":  # two members: the batches reach each of them, in order
                P.check("composite-propagates-update", len(ups) % 2 == 0 and [e["who"] for e in ups] == [1, 2] * (len(ups) // 2))
                ups = ups[::2]
            nb = sum(1 for st in out["steps"] if st["op"] in ("U1", "U0", "S1", "S0", "R1") and "raised" not in st)
            P.check("composite-propagates-update", len(ups) == nb)
            k = 0
            tstate[0] = 0
            for st in out["steps"]:
                if st["op"] in ("U1", "S1", "R1") and kind == "pipeline":
                    tstate[0] += 1  # the batch reaches the forecaster as transformed by the *updated* transformer
                if st["op"] in ("U1", "U0", "S1", "S0", "R1") and "raised" not in st and k < len(ups):
                    b = [bb for bb in inp["batches"]][k]
                    e = ups[k]
                    k += 1
                    P.check("composite-propagates-update", len(e["vals"]) == len(b["vals"]))
                    if "update_params" in e:  # the inner estimator is told the same update_params as the composite
                        P.check("composite-propagates-update", e["update_params"] == st["op"].endswith("1"), {"op": st["op"], "inner_update_params": e["update_params"]})
                    for v, w_ in zip(e["vals"], b["vals"]):
                        P.eq("composite-propagates-update", v, Tf(w_) if kind == "pipeline" else w_)

    def signature(self, label, inp, cell):
        if label == "update-accepted":
            return "update-accepted/%s/fh_in_fit=%s" % ("refit-without-fh" if not inp.get("fh_in_fit") else "other", inp.get("fh_in_fit"))
        return "%s/%s" % (cell["kind"], label)


HARNESS = C10()
