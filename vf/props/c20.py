"""C20 -- malformed data, horizons and settings are rejected, never silently mis-handled."""
from ..runner import Harness
from ..hutil import L, S, fresh_ints, fresh_reals
from .stubs import make_member, make_transformer
from .c07 import make_score

OKEXC = (ValueError, TypeError, NotImplementedError)


def attempt(f, post=None):
    """-> 'ok' | 'rejected' | 'other:<Exc>' (+ fitted flag after a rejection)"""
    try:
        f()
    except OKEXC:
        r = "rejected"
    except Exception as e:  # noqa
        r = "other:%s" % type(e).__name__
    else:
        r = "ok"
    if post is not None and r != "ok":
        try:
            if post():
                r += "+fitted"
        except Exception:
            pass
    return r


REJ_TYPES = (ValueError, TypeError, NotImplementedError)


class C20(Harness):
    pid = "C20"
    labels = ("rejected-iff-invalid", "valid-twin-accepted", "proper-exception-type", "no-fitted-state-after-rejection")
    stubs = ("member forecasters / transformers of composites := recording stubs", "scoring := uninterpreted callable")
    assumptions = ("index labels with ties (equal neighbours) are neither required to be accepted nor rejected", "component names are drawn from a small concrete alphabet")
    outside = ("values of datetime / period indices (such indices are only made and recognised by type, e.g. as a wrongly-typed relative horizon)", "string-valued indices (the concrete replay world cannot distinguish an object Index from an integer Index)")

    CASES = [
        "unsorted-index", "empty-index", "bad-target-type", "x-index-differs", "fh-duplicate", "fh-empty-fractional-type", "fh-missing",
        "fh-differs-from-fit", "int-params", "int-param-types", "window-does-not-fit", "unknown-strategy", "ill-formed-composite",
    ]

    def overrides(self, kind, cell):
        if kind == "sym":
            import types
            from .. import msk

            return {
                "sklearn.linear_model": types.SimpleNamespace(LinearRegression=msk.LinearRegression),
                "sklearn.pipeline": types.SimpleNamespace(make_pipeline=msk.make_pipeline),
                "sklearn.preprocessing": types.SimpleNamespace(PolynomialFeatures=msk.PolynomialFeatures),
            }
        return None

    def bounds(self, tier):
        return {"series_length": 3, "fh_steps": 2, "cases": self.CASES}

    def cells(self, tier):
        return [{"name": c, "kind": c, "cost": 2} for c in self.CASES]

    def inputs(self, ctx, cell):
        k = cell["kind"]
        inp = {"s0": ctx.fresh_int("s0"), "y": fresh_reals(ctx, "y", 4)}
        if k == "unsorted-index":
            inp["as_range"] = bool(ctx.fresh_bool("as_range"))
            if inp["as_range"]:
                # a RangeIndex with an arbitrary non-zero step (descending ranges are unsorted time indices)
                st = ctx.fresh_int("step")
                ctx.assume((st >= -2) & (st <= 2) & (st != 0))
                inp["step"] = int(st)
                inp["labels"] = [inp["s0"] + i * inp["step"] for i in range(3)]
            else:
                inp["labels"] = fresh_ints(ctx, "l", 3)
        elif k == "x-index-differs":
            inp["dx"] = fresh_ints(ctx, "dx", 3)
        elif k in ("fh-duplicate", "fh-differs-from-fit"):
            inp["fh1"] = fresh_ints(ctx, "g", 2)
            inp["fh2"] = fresh_ints(ctx, "h", 2)
            for v in inp["fh1"] + inp["fh2"]:
                ctx.assume((v >= 1) & (v <= 2))
            if k == "fh-differs-from-fit":
                ctx.assume(inp["fh1"][0] < inp["fh1"][1])
                inp["fh1"] = [int(v) for v in inp["fh1"]]
                # the horizon at predict: one or two steps (a strict subset of the fitted horizon counts as different)
                if bool(ctx.fresh_bool("single_step")):
                    inp["fh2"] = inp["fh2"][:1]
                else:
                    ctx.assume(inp["fh2"][0] < inp["fh2"][1])
        elif k == "fh-empty-fractional-type":
            r = ctx.fresh_real("frac")
            ctx.assume(~r.is_integer())
            inp["frac"] = r
        elif k == "int-params":
            inp["v"] = ctx.fresh_int("v")
            ctx.assume((inp["v"] >= -2) & (inp["v"] <= 3))
        elif k == "window-does-not-fit":
            inp["w"] = ctx.fresh_int("w")
            ctx.assume((inp["w"] >= 1) & (inp["w"] <= 6))
            inp["w"] = int(inp["w"])
        return inp

    # ------------------------------------------------------------------
    def scenario(self, W, inp, cell):
        np, pd = W.np, W.pd
        self._curW = W
        k = cell["kind"]
        s0 = inp["s0"]
        NF = W.load("sktime.forecasting.naive").NaiveForecaster
        PT = W.load("sktime.forecasting.trend").PolynomialTrendForecaster
        sp = W.load("sktime.forecasting.model_selection._split")
        ev = W.load("sktime.forecasting.model_evaluation._functions")
        red = W.load("sktime.forecasting.compose._reduce")
        ENS = W.load("sktime.forecasting.compose._ensemble").EnsembleForecaster
        PIPE = W.load("sktime.forecasting.compose._pipeline").TransformedTargetForecaster
        MUX = W.load("sktime.forecasting.compose._multiplexer").MultiplexForecaster
        STK = W.load("sktime.forecasting.compose._stack").StackingForecaster
        FH = W.load("sktime.forecasting.base").ForecastingHorizon
        tune = W.load("sktime.forecasting.model_selection._tune")
        log = []
        Member = make_member(W, log)
        T, _ = make_transformer(W, log)
        from sklearn.base import BaseEstimator, RegressorMixin

        class Reg(RegressorMixin, BaseEstimator):
            def fit(self, X, y):
                rows = L(y)
                self.k_ = len(rows[0]) if rows and isinstance(rows[0], list) else 0
                return self

            def predict(self, X):
                n = len(L(X))
                if getattr(self, "k_", 0):
                    return np.array([[0.0] * self.k_ for _ in range(n)])
                return np.array([0.0] * n)

        good = pd.Series(inp["y"], index=pd.RangeIndex(s0, s0 + 4))
        out = {}

        def entry_points(y, X=None):
            """every forecasting entry point that takes the series"""
            eps = {}
            f1 = NF("last")
            eps["naive.fit"] = attempt(lambda: f1.fit(y, X), lambda: f1.is_fitted)
            f2 = Member(p=1)
            eps["member.fit"] = attempt(lambda: f2.fit(y, X), lambda: f2.is_fitted)
            f3 = ENS([("a", Member(p=1)), ("b", NF("last"))])
            eps["ensemble.fit"] = attempt(lambda: f3.fit(y, X), lambda: f3.is_fitted)
            f4 = PIPE([("t", T(tag=1)), ("f", NF("last"))])
            eps["pipeline.fit"] = attempt(lambda: f4.fit(y, X), lambda: f4.is_fitted)
            f5 = red.make_reduction(Reg(), strategy="recursive", window_length=1)
            eps["reduction.fit"] = attempt(lambda: f5.fit(y, X), lambda: f5.is_fitted)
            f6 = NF("last").fit(good, None if X is None else pd.DataFrame({"x": inp["y"]}, index=good.index))
            eps["naive.update"] = attempt(lambda: f6.update(y, X))
            cv = sp.SlidingWindowSplitter(fh=1, window_length=1)
            if X is None:
                eps["splitter.split"] = attempt(lambda: list(cv.split(y)))
                if k != "unsorted-index":  # the trend forecaster additionally needs a gap-free index
                    f8 = PT(degree=1)
                    eps["trend.fit"] = attempt(lambda: f8.fit(y), lambda: f8.is_fitted)
                eps["train_test_split"] = attempt(lambda: sp.temporal_train_test_split(y, fh=FH(np.array([1]))))
            else:
                eps["train_test_split"] = attempt(lambda: sp.temporal_train_test_split(y, X, fh=FH(np.array([1]))))
            f7 = Member(p=2)
            eps["evaluate"] = attempt(lambda: ev.evaluate(f7, cv, y, X, scoring=make_score(W)))
            f9 = tune.ForecastingGridSearchCV(Member(p=0), cv, {"p": [1]}, scoring=make_score(W))
            eps["gridsearch.fit"] = attempt(lambda: f9.fit(y, X), lambda: f9.is_fitted)
            return eps

        if k == "unsorted-index":
            if inp.get("as_range"):
                y = pd.Series(inp["y"][:3], index=pd.RangeIndex(s0, s0 + 3 * inp["step"], inp["step"]))
            else:
                y = pd.Series(inp["y"][:3], index=pd.Index(inp["labels"]))
            out["eps"] = entry_points(y)
        elif k == "empty-index":
            y = pd.Series([], index=pd.Index([], dtype=int) if W.kind == "conc" else pd.Int64Index([]), dtype=float)
            out["eps"] = entry_points(y)
        elif k == "bad-target-type":
            idx = pd.RangeIndex(s0, s0 + 4)
            out["dataframe"] = entry_points(pd.DataFrame({"a": inp["y"], "b": inp["y"]}, index=idx))
            out["ndarray"] = entry_points(np.array(inp["y"]))
            out["list"] = entry_points(list(inp["y"]))
        elif k == "x-index-differs":
            y = pd.Series(inp["y"][:3], index=pd.RangeIndex(s0, s0 + 3))
            X = pd.DataFrame({"x": inp["y"][:3]}, index=pd.Index([s0 + i + d for i, d in enumerate(inp["dx"])]))
            eps = entry_points(y, X)
            out["eps"] = eps
            # a forecaster that was fitted before: a refused second fit leaves no trace of the refused series
            f0 = NF("last").fit(good)
            y2 = pd.Series([v + 1 for v in inp["y"][:3]], index=pd.RangeIndex(s0 + 10, s0 + 13))
            X2 = pd.DataFrame({"x": inp["y"][:3]}, index=pd.Index([s0 + 10 + i + d for i, d in enumerate(inp["dx"])]))
            r0 = attempt(lambda: f0.fit(y2, X2))
            out["refit"] = {"res": r0, "cutoff": S(f0.cutoff), "remembered": L(f0._y.values), "good_cutoff": S(good.index[-1]), "good": L(good.values)}
        elif k == "fh-duplicate":
            fh = np.array(inp["fh2"])
            f = NF("last").fit(good)
            out["predict"] = attempt(lambda: f.predict(fh))
            g = NF("last")
            out["fit"] = attempt(lambda: g.fit(good, fh=fh), lambda: g.is_fitted)
            out["FH"] = attempt(lambda: FH(fh))
            # the same repeated step handed over as a pandas index
            fhi = pd.Index(inp["fh2"])
            out["FH.index"] = attempt(lambda: FH(fhi))
            f2 = NF("last").fit(good)
            out["predict.index"] = attempt(lambda: f2.predict(fhi))
            out["splitter.index"] = attempt(lambda: list(sp.SlidingWindowSplitter(fh=fhi, window_length=1).split(good)))
            out["splitter"] = attempt(lambda: list(sp.SlidingWindowSplitter(fh=fh, window_length=1).split(good)))
            r = red.make_reduction(Reg(), strategy="direct", window_length=1)
            out["reduction.fit"] = attempt(lambda: r.fit(good, fh=fh), lambda: r.is_fitted)
        elif k == "fh-empty-fractional-type":
            f = NF("last").fit(good)
            try:
                empty_obj = FH(np.array([], dtype=int))  # an empty horizon that already is a ForecastingHorizon object
            except REJ_TYPES:
                empty_obj = np.array([], dtype=int)
            for name, bad in (("empty", np.array([], dtype=int)), ("empty_list", []), ("empty_object", empty_obj), ("frac", np.array([inp["frac"]])), ("frac_scalar", inp["frac"]), ("str", "1"), ("dict", {"a": 1}), ("none_in_list", [1, None])):
                out["predict:" + name] = attempt(lambda bad=bad: f.predict(bad))
                g = NF("last")
                out["fit:" + name] = attempt(lambda bad=bad, g=g: g.fit(good, fh=bad), lambda g=g: g.is_fitted)
                out["splitter:" + name] = attempt(lambda bad=bad: list(sp.SlidingWindowSplitter(fh=bad, window_length=1).split(good)))
            # time stamps / periods are absolute by nature: as a (default, relative) horizon they are refused by type
            for name, bad in (("period_index", pd.period_range("2000-01", periods=2, freq="M")), ("datetime_index", pd.date_range("2000-01-01", periods=2, freq="D"))):
                out["FH:" + name] = attempt(lambda bad=bad: FH(bad))
                g = NF("last")
                out["fit:" + name] = attempt(lambda bad=bad, g=g: g.fit(good, fh=bad), lambda g=g: g.is_fitted)
            out["ok:int"] = attempt(lambda: f.predict(1))
            out["ok:list"] = attempt(lambda: f.predict([1, 2]))
            out["ok:array"] = attempt(lambda: f.predict(np.array([2])))
        elif k == "fh-missing":
            f = NF("last").fit(good)
            out["naive.predict"] = attempt(lambda: f.predict())
            e = ENS([("a", Member(p=1))]).fit(good)
            out["ensemble.predict"] = attempt(lambda: e.predict())
            r = red.make_reduction(Reg(), strategy="direct", window_length=1)
            out["direct.fit"] = attempt(lambda: r.fit(good), lambda: r.is_fitted)
            s = STK([("a", Member(p=1))], final_regressor=Reg())
            out["stacking.fit"] = attempt(lambda: s.fit(good), lambda: s.is_fitted)
            # a horizon-dependent forecaster that was fitted before: a second fit still needs its horizon
            r9 = red.make_reduction(Reg(), strategy="direct", window_length=1)
            r9.fit(good, fh=np.array([1]))
            out["direct.refit-without-fh"] = attempt(lambda: r9.fit(good), lambda: r9.is_fitted)
            out["ok:naive.predict"] = attempt(lambda: NF("last").fit(good).predict(1))
            out["ok:fit-fh-then-predict"] = attempt(lambda: NF("last").fit(good, fh=1).predict())
        elif k == "fh-differs-from-fit":
            fh1, fh2 = np.array(inp["fh1"]), np.array(inp["fh2"])
            for strat in ("direct", "multioutput", "dirrec"):
                r = red.make_reduction(Reg(), strategy=strat, window_length=1)
                r.fit(good, fh=fh1)
                out[strat] = attempt(lambda r=r: r.predict(fh2))
                # the same through the updating entry points: a splitter / an argument carrying the other horizon
                later = pd.Series(list(inp["y"]), index=pd.RangeIndex(s0 + 4, s0 + 8))
                r2 = red.make_reduction(Reg(), strategy=strat, window_length=1)
                r2.fit(good, fh=fh1)
                out[strat + ".update_predict"] = attempt(lambda r2=r2: r2.update_predict(later, sp.SlidingWindowSplitter(fh=fh2, window_length=1, start_with_window=False), update_params=False))
                r3 = red.make_reduction(Reg(), strategy=strat, window_length=1)
                r3.fit(good, fh=fh1)
                out[strat + ".update_predict_single"] = attempt(lambda r3=r3: r3.update_predict_single(later.iloc[:1], fh2, update_params=False))
            s = STK([("a", Member(p=1))], final_regressor=Reg())
            s.fit(good, fh=fh1)
            out["stacking"] = attempt(lambda: s.predict(fh2))
        elif k == "int-params":
            v = inp["v"]
            out["window_length"] = attempt(lambda: list(sp.SlidingWindowSplitter(fh=1, window_length=v).split(good)))
            out["step_length"] = attempt(lambda: list(sp.SlidingWindowSplitter(fh=1, window_length=1, step_length=v).split(good)))
            out["initial_window"] = attempt(lambda: list(sp.ExpandingWindowSplitter(fh=1, initial_window=v).split(good)))
            f = NF("last", sp=v)
            out["naive.sp"] = attempt(lambda: f.fit(good), lambda: f.is_fitted)
            g = NF("mean", window_length=v)
            out["naive.window_length"] = attempt(lambda: g.fit(good), lambda: g.is_fitted)
            r = red.make_reduction(Reg(), strategy="recursive", window_length=v)
            out["reduction.window_length"] = attempt(lambda: r.fit(good), lambda: r.is_fitted)
            out["cutoff.window_length"] = attempt(lambda: list(sp.CutoffSplitter(np.array([1]), fh=1, window_length=v).split(good)))
        elif k == "int-param-types":
            for name, bad in (("float", 2.0), ("str", "2"), ("list", [2]), ("bool", True), ("bool-false", False)):
                out["window_length:" + name] = attempt(lambda bad=bad: list(sp.SlidingWindowSplitter(fh=1, window_length=bad).split(good)))
                out["step_length:" + name] = attempt(lambda bad=bad: list(sp.SlidingWindowSplitter(fh=1, window_length=1, step_length=bad).split(good)))
                f = NF("last", sp=bad)
                out["sp:" + name] = attempt(lambda f=f: f.fit(good), lambda f=f: f.is_fitted)
                r = red.make_reduction(Reg(), strategy="recursive", window_length=bad)
                out["reduction.window_length:" + name] = attempt(lambda r=r: r.fit(good), lambda r=r: r.is_fitted)
            out["cutoffs:list"] = attempt(lambda: list(sp.CutoffSplitter([1], fh=1, window_length=1).split(good)))
            out["cutoffs:empty"] = attempt(lambda: list(sp.CutoffSplitter(np.array([], dtype=int), fh=1, window_length=1).split(good)))
            out["ok:window_length"] = attempt(lambda: list(sp.SlidingWindowSplitter(fh=1, window_length=2).split(good)))
            out["ok:sp"] = attempt(lambda: NF("last", sp=2).fit(good))
        elif k == "window-does-not-fit":
            w = inp["w"]
            f = NF("mean", window_length=w)
            out["naive"] = attempt(lambda: f.fit(good), lambda: f.is_fitted)
            g = NF("last", sp=w)
            out["naive.sp"] = attempt(lambda: g.fit(good), lambda: g.is_fitted)
            out["sliding"] = attempt(lambda: list(sp.SlidingWindowSplitter(fh=1, window_length=w).split(good)))
            # the horizon as an unsorted pandas index: its largest step (2) counts, wherever it stands
            out["sliding.unsorted-index-fh"] = attempt(lambda: list(sp.SlidingWindowSplitter(fh=pd.Index([2, 1]), window_length=w).split(good)))
            out["expanding.unsorted-index-fh"] = attempt(lambda: list(sp.ExpandingWindowSplitter(fh=pd.Index([2, 1]), initial_window=w).split(good)))
            out["expanding"] = attempt(lambda: list(sp.ExpandingWindowSplitter(fh=1, initial_window=w).split(good)))
            # starting with an empty window does not waive the requirement that a full window plus horizon fits
            out["sliding.nostart"] = attempt(lambda: list(sp.SlidingWindowSplitter(fh=1, window_length=w, start_with_window=False).split(good)))
            h = NF("last").fit(good)
            later = pd.Series(list(inp["y"]), index=pd.RangeIndex(s0 + 4, s0 + 8))
            out["update_predict"] = attempt(lambda: h.update_predict(later, sp.SlidingWindowSplitter(fh=1, window_length=w, start_with_window=False)))
            r = red.make_reduction(Reg(), strategy="recursive", window_length=w)
            out["reduction"] = attempt(lambda: r.fit(good), lambda: r.is_fitted)
            out["cutoff"] = attempt(lambda: list(sp.CutoffSplitter(np.array([w - 1]), fh=1, window_length=1).split(good)))
        elif k == "unknown-strategy":
            f = NF("naive")
            out["naive"] = attempt(lambda: f.fit(good), lambda: f.is_fitted)
            for frag in ("", "l", "st", "las", "mea", "Last", "last "):  # fragments / near-misses of the valid names
                g_ = NF(frag)
                out["naive:%r" % frag] = attempt(lambda g_=g_: g_.fit(good), lambda g_=g_: g_.is_fitted)
            out["make_reduction"] = attempt(lambda: red.make_reduction(Reg(), strategy="iterated"))
            out["make_reduction.scitype"] = attempt(lambda: red.make_reduction(Reg(), scitype="panel"))
            out["evaluate"] = attempt(lambda: ev.evaluate(Member(p=1), sp.SlidingWindowSplitter(fh=1, window_length=1), good, strategy="refresh", scoring=make_score(W)))
            out["evaluate.single-split"] = attempt(lambda: ev.evaluate(Member(p=1), sp.SingleWindowSplitter(fh=1), good, strategy="refresh", scoring=make_score(W)))
            out["evaluate.cv"] = attempt(lambda: ev.evaluate(Member(p=1), "kfold", good, scoring=make_score(W)))
            out["evaluate.scoring"] = attempt(lambda: ev.evaluate(Member(p=1), sp.SlidingWindowSplitter(fh=1, window_length=1), good, scoring="mape"))
            out["evaluate.start_with_window"] = attempt(lambda: ev.evaluate(Member(p=1), sp.SlidingWindowSplitter(fh=1, window_length=1, start_with_window=False), good, scoring=make_score(W)))
            e = ENS([("a", Member(p=1))], aggfunc="mode").fit(good, fh=1)
            out["ensemble.aggfunc"] = attempt(lambda: e.predict())
            m = MUX([("a", Member(p=1))], selected_forecaster="zzz")
            out["multiplexer.selected"] = attempt(lambda: m.fit(good), lambda: m.is_fitted)
            out["ok:naive"] = attempt(lambda: NF("drift").fit(good))
            out["ok:evaluate"] = attempt(lambda: ev.evaluate(Member(p=1), sp.SlidingWindowSplitter(fh=1, window_length=1), good, strategy="update", scoring=make_score(W)))
        elif k == "ill-formed-composite":
            def ens(fs):
                e = ENS(fs)
                return attempt(lambda: e.fit(good, fh=1), lambda: e.is_fitted)

            def pipe(steps):
                p = PIPE(steps)
                return attempt(lambda: p.fit(good, fh=1), lambda: p.is_fitted)

            out["ens:duplicate-names"] = ens([("a", Member(p=1)), ("a", Member(p=2))])
            out["ens:duplicate-names-apart"] = ens([("a", Member(p=1)), ("b", Member(p=2)), ("a", Member(p=3))])
            out["ens:dunder-name"] = ens([("a__b", Member(p=1))])
            out["ens:ctor-arg-name"] = ens([("forecasters", Member(p=1))])
            out["ens:empty"] = ens([])
            out["ens:none"] = ens(None)
            out["ens:not-a-forecaster"] = ens([("a", Reg())])
            class Duck(BaseEstimator):
                """looks like a forecaster (fit / update / predict with the forecasting signature) but is not one"""

                def fit(self, y, X=None, fh=None):
                    self._c = y.index[-1]
                    return self

                def update(self, y, X=None, update_params=True):
                    return self

                def predict(self, fh=None, X=None, return_pred_int=False, alpha=0.05):
                    return pd.Series([0.0], index=pd.Index([self._c + 1]))

            out["ens:duck-not-a-forecaster"] = ens([("a", Duck())])
            out["ens:duck-after-a-forecaster"] = ens([("a", Member(p=1)), ("b", Duck())])
            out["ens:duck-last-of-three"] = ens([("a", Member(p=1)), ("b", Member(p=2)), ("c", Duck())])
            out["ens:transformer-member"] = ens([("a", T(tag=1))])
            out["pipe:duplicate-names"] = pipe([("t", T(tag=1)), ("t", Member(p=1))])
            out["pipe:dunder-name"] = pipe([("t__x", T(tag=1)), ("f", Member(p=1))])
            out["pipe:ctor-arg-name"] = pipe([("steps", T(tag=1)), ("f", Member(p=1))])
            out["pipe:last-not-forecaster"] = pipe([("t", T(tag=1)), ("u", T(tag=2))])
            out["pipe:forecaster-as-transformer"] = pipe([("f1", Member(p=1)), ("f", Member(p=2))])
            out["pipe:regressor-as-transformer"] = pipe([("r", Reg()), ("f", Member(p=2))])
            s = STK([("a", Member(p=1))], final_regressor=Member(p=9))
            out["stack:final-not-regressor"] = attempt(lambda: s.fit(good, fh=1), lambda: s.is_fitted)
            out["ok:ensemble"] = ens([("a", Member(p=1)), ("b", Member(p=2))])
            out["ok:pipeline"] = pipe([("t", T(tag=1)), ("f", Member(p=1))])
        return out

    # ------------------------------------------------------------------
    def oracle(self, P, inp, out, cell):
        k = cell["kind"]

        def verdict(name, res, invalid, may_be_either=False):
            """invalid: python bool or symbolic condition"""
            base = res.split("+")[0]
            P.check("proper-exception-type", not base.startswith("other:"), {"entry": name, "result": res})
            P.check("no-fitted-state-after-rejection", "+fitted" not in res, {"entry": name, "result": res})
            if may_be_either:
                return
            if base == "ok":
                P.check("rejected-iff-invalid", (~invalid) if not isinstance(invalid, bool) else (not invalid), {"entry": name, "result": res, "expected": "rejected"})
            else:
                # a refusal is only right for an invalid input (one label in both worlds: a symbolic validity condition
                # in the symbolic run is a plain False in the replay)
                P.check("valid-twin-accepted", invalid, {"entry": name, "result": res, "expected": "accepted"})

        if k == "unsorted-index":
            l = inp["labels"]
            unsorted = (l[0] > l[1]) | (l[1] > l[2])
            strictly = (l[0] < l[1]) & (l[1] < l[2])
            for name, res in out["eps"].items():
                base = res.split("+")[0]
                P.check("proper-exception-type", not base.startswith("other:"), {"entry": name, "result": res})
                P.check("no-fitted-state-after-rejection", "+fitted" not in res, {"entry": name})
                if base == "ok":
                    P.check("rejected-iff-invalid", ~unsorted if not isinstance(unsorted, bool) else not unsorted, {"entry": name, "result": res})
                else:
                    P.check("valid-twin-accepted", ~strictly if not isinstance(strictly, bool) else not strictly, {"entry": name, "result": res})
        elif k == "empty-index":
            for name, res in out["eps"].items():
                # update() documents that an empty batch is a no-op
                verdict(name, res, True, may_be_either=(name == "naive.update"))
        elif k == "bad-target-type":
            for grp in ("dataframe", "ndarray", "list"):
                for name, res in out[grp].items():
                    # splitters accept an index-like; the train/test split of a frame is harmless
                    either = name == "splitter.split" or (name == "train_test_split" and grp == "dataframe")
                    verdict(grp + ":" + name, res, True, may_be_either=either)
        elif k == "x-index-differs":
            dx = inp["dx"]
            differs = (dx[0] != 0) | (dx[1] != 0) | (dx[2] != 0)
            for name, res in out["eps"].items():
                if name in ("splitter.split", "trend.fit"):
                    continue
                verdict(name, res, differs)
            rf = out["refit"]
            verdict("refit-of-a-fitted-forecaster", rf["res"], differs)
            if rf["res"].split("+")[0] != "ok":
                P.eq("no-fitted-state-after-rejection", rf["cutoff"], rf["good_cutoff"], {"entry": "refit-of-a-fitted-forecaster", "what": "cutoff after the refused fit"})
                P.check("no-fitted-state-after-rejection", len(rf["remembered"]) == len(rf["good"]), {"entry": "refit-of-a-fitted-forecaster", "what": "remembered series after the refused fit"})
                for a, b in zip(rf["remembered"], rf["good"]):
                    P.eq("no-fitted-state-after-rejection", a, b, {"entry": "refit-of-a-fitted-forecaster", "what": "remembered series after the refused fit"})
        elif k == "fh-duplicate":
            dup = inp["fh2"][0] == inp["fh2"][1]
            for name, res in out.items():
                verdict(name, res, dup)
        elif k == "fh-empty-fractional-type":
            for name, res in out.items():
                verdict(name, res, not name.startswith("ok:"))
        elif k == "fh-missing":
            for name, res in out.items():
                verdict(name, res, not name.startswith("ok:"))
        elif k == "fh-differs-from-fit":
            a, b = inp["fh1"], inp["fh2"]
            differs = True if len(b) != len(a) else ((b[0] != a[0]) | (b[1] != a[1]))
            for name, res in out.items():
                verdict(name, res, differs)
        elif k == "int-params":
            v = inp["v"]
            for name, res in out.items():
                if name == "naive.window_length":
                    verdict(name, res, (v < 1) | (v > 4))
                elif name == "naive.sp":
                    verdict(name, res, (v < 1) | (v > 4))
                elif name in ("window_length", "initial_window"):
                    verdict(name, res, (v < 1) | (v + 1 > 4))
                elif name == "reduction.window_length":
                    verdict(name, res, (v < 1) | (v + 1 > 4))
                else:
                    verdict(name, res, v < 1)
        elif k == "int-param-types":
            for name, res in out.items():
                verdict(name, res, not name.startswith("ok:"))
        elif k == "window-does-not-fit":
            w = inp["w"]
            n = 4
            verdict("naive", out["naive"], w > n)
            verdict("naive.sp", out["naive.sp"], w > n)
            verdict("sliding", out["sliding"], w + 1 > n)
            verdict("expanding", out["expanding"], w + 1 > n)
            verdict("sliding.nostart", out["sliding.nostart"], w + 1 > n)
            verdict("sliding.unsorted-index-fh", out["sliding.unsorted-index-fh"], w + 2 > n)
            verdict("expanding.unsorted-index-fh", out["expanding.unsorted-index-fh"], w + 2 > n)
            verdict("update_predict", out["update_predict"], w + 1 > n)
            verdict("reduction", out["reduction"], w + 1 > n)
            verdict("cutoff", out["cutoff"], (w - 1) + 1 > n - 1)
        elif k in ("unknown-strategy", "ill-formed-composite"):
            for name, res in out.items():
                verdict(name, res, not name.startswith("ok:"))

    def signature(self, label, inp, cell, detail=None):
        return "%s/%s/%s" % (cell["kind"], label, (detail or {}).get("entry", ""))


HARNESS = C20()
