"""C11 -- elementary forecasters compute the textbook forecast they document."""
import types
from fractions import Fraction

from ..runner import Harness
from ..hutil import L, S, fresh_ints, fresh_reals, increasing
from .. import msk

NAIVE = "sktime.forecasting.naive"
TREND = "sktime.forecasting.trend"
SMAD = "sktime.forecasting.base.adapters._statsmodels"


def is_nan(x):
    return isinstance(x, float) and x != x


# the adapters' own option names -> the keyword they must reach statsmodels under (from the adapters' documentation:
# every model option is passed through under its own name, `sp` is statsmodels' `seasonal_periods`)
_HW = ["trend", "damped_trend", "seasonal", "sp", "initial_level", "initial_trend", "initial_seasonal", "use_boxcox", "initialization_method"]
_ETS_INIT = ["error", "trend", "damped_trend", "seasonal", "sp", "initialization_method", "initial_level", "initial_trend", "initial_seasonal", "bounds", "dates", "freq", "missing"]
_ETS_FIT = ["start_params", "maxiter", "full_output", "disp", "callback", "return_params"]
SM_OPTIONS = {
    "hw": {"module": "sktime.forecasting.exp_smoothing", "cls": "ExponentialSmoothing", "attr": "_ExponentialSmoothing", "ctor": _HW,
           "init": {("seasonal_periods" if k == "sp" else k): k for k in _HW}, "fit": {}},
    "ets": {"module": "sktime.forecasting.ets", "cls": "AutoETS", "attr": "_ETSModel", "ctor": _ETS_INIT + _ETS_FIT,
            "init": {("seasonal_periods" if k == "sp" else k): k for k in _ETS_INIT}, "fit": {k: k for k in _ETS_FIT}},
}


class C11(Harness):
    pid = "C11"
    labels = (
        "reject-iff-window-does-not-fit",
        "index",
        "cutoff",
        "last",
        "seasonal-last",
        "mean",
        "seasonal-mean",
        "drift",
        "in-sample",
        "poly-least-squares",
        "statsmodels-range",
        "statsmodels-values",
        "statsmodels-options-forwarded",
    )
    stubs = (
        "sklearn LinearRegression/PolynomialFeatures/make_pipeline := exact rational least-squares model (vf.msk) in the symbolic world; the real scikit-learn in the concrete world",
        "statsmodels fitted results := recording stub answering predict(start, end) with an uninterpreted function of the position",
    )
    assumptions = (
        "no missing values in y",
        "seasonal strategies: len(y) >= sp",
        "polynomial trend: len(y) >= degree + 1 (determined least-squares system)",
        "drift strategy: len(y) >= 2 (a line needs two points; with one observation and window_length=None the real code silently returns NaN)",
    )
    outside = ("AutoETS / ExponentialSmoothing / Theta numerics (statsmodels optimisers)", "prediction intervals", "NaN-containing windows")

    def bounds(self, tier):
        q = tier == "quick"
        return {"n_max": 6 if q else 9, "sp_max": 3 if q else 4, "fh_steps": 2, "h_max": "2*sp_max+1", "poly_n_max": 4 if q else 6, "poly_degree": [1, 2]}

    def cells(self, tier):
        b = self.bounds(tier)
        N, SP = b["n_max"], b["sp_max"]
        out = []
        for strat in ("last", "mean", "drift"):
            for seasonal in ((False, True) if strat != "drift" else (False,)):
                for wlmode in (("none", "given") if strat != "last" else ("none",)):
                    for K in (1, 2):
                        out.append({"name": "naive-%s-%s-wl%s-k%d" % (strat, "sp" if seasonal else "sp1", wlmode, K), "kind": "naive", "strategy": strat, "seasonal": seasonal, "wlmode": wlmode, "K": K, "N": N, "SP": SP, "cost": (4 if seasonal else 1) * K})
        for strat in ("last", "mean"):
            for K in (1, 2):
                out.append({"name": "insample-%s-k%d" % (strat, K), "kind": "insample", "strategy": strat, "K": K, "N": min(N, 5 if tier == "quick" else 6), "cost": 3})
        for deg in b["poly_degree"]:
            for icpt in (True, False):
                out.append({"name": "poly-d%d-%s" % (deg, "icpt" if icpt else "noicpt"), "kind": "poly", "degree": deg, "icpt": icpt, "N": b["poly_n_max"], "cost": 2})
        out.append({"name": "statsmodels-adapter", "kind": "sm", "N": 4, "cost": 1})
        out.append({"name": "statsmodels-options-holtwinters", "kind": "smopt", "which": "hw", "N": 3, "cost": 1})
        out.append({"name": "statsmodels-options-ets", "kind": "smopt", "which": "ets", "N": 3, "cost": 1})
        return out

    def overrides(self, kind, cell):
        if cell["kind"] == "poly" and kind == "sym":
            return {
                "sklearn.linear_model": types.SimpleNamespace(LinearRegression=msk.LinearRegression),
                "sklearn.pipeline": types.SimpleNamespace(make_pipeline=msk.make_pipeline),
                "sklearn.preprocessing": types.SimpleNamespace(PolynomialFeatures=msk.PolynomialFeatures),
            }
        return None

    # ------------------------------------------------------------------
    def inputs(self, ctx, cell):
        kind = cell["kind"]
        N = cell["N"]
        n = ctx.fresh_int("n")
        ctx.assume((n >= 1) & (n <= N))
        nn = int(n)
        inp = {"n": nn, "s0": ctx.fresh_int("s0"), "y": fresh_reals(ctx, "y", nn), "range_index": bool(ctx.fresh_bool("range_index"))}
        if kind == "naive":
            SP = cell["SP"]
            if cell["seasonal"]:
                sp = ctx.fresh_int("sp")
                ctx.assume((sp >= 2) & (sp <= SP))
                inp["sp"] = int(sp)
                if nn < inp["sp"] and not (cell["strategy"] == "last"):
                    ctx.assume(False)
            else:
                inp["sp"] = 1
            if cell["wlmode"] == "given":
                wl = ctx.fresh_int("wl")
                ctx.assume((wl >= 1) & (wl <= nn + 1))
                inp["wl"] = int(wl)
            else:
                inp["wl"] = None
            if cell["strategy"] == "drift" and nn < 2:
                ctx.assume(False)
            hs = fresh_ints(ctx, "h", cell["K"])
            increasing(ctx, hs, lo=1)
            ctx.assume(hs[-1] <= 2 * SP + 1)
            inp["fh"] = hs
            inp["fh_in_fit"] = bool(ctx.fresh_bool("fh_in_fit"))
            if cell["wlmode"] == "none" and cell["strategy"] in ("mean", "drift") and not cell["seasonal"] and nn >= 3:
                # the series may arrive in two pieces (fit, then update with the default re-estimation): the "whole
                # training series" window then is the whole series seen so far
                inp["via_update"] = bool(ctx.fresh_bool("via_update"))
            if cell["strategy"] == "mean" and not cell["seasonal"] and nn >= 2:
                # one observation may be missing: the window mean is the mean of the observed values in the window
                npos = ctx.fresh_int("nan_pos")  # none, the newest or the oldest observation
                ctx.assume((npos == -1) | (npos == nn - 1) | (npos == 0))
                if int(npos) >= 0:
                    inp["y"][int(npos)] = float("nan")
                    inp["nan_pos"] = int(npos)
        elif kind == "insample":
            wl = ctx.fresh_int("wl")
            ctx.assume((wl >= 1) & (wl <= nn))
            inp["wl"] = int(wl)
            hs = fresh_ints(ctx, "h", cell["K"])
            increasing(ctx, hs, lo=-(nn - 1))
            ctx.assume(hs[-1] <= 2)
            ctx.assume(hs[0] <= 0)
            inp["fh"] = [int(h) for h in hs]
            inp["failed_before"] = bool(ctx.fresh_bool("failed_before"))  # an earlier in-sample request that the forecaster refuses
        elif kind == "poly":
            ctx.assume(n >= cell["degree"] + 1)
            h = ctx.fresh_int("h")
            ctx.assume((h >= -(nn - 1)) & (h <= 3))
            h2 = ctx.fresh_int("h2")
            ctx.assume((h2 > h) & (h2 <= 4))
            inp["fh"] = [int(h), int(h2)]
            # later observations taken in without re-estimating: the fitted polynomial stays, the cutoff moves
            nb = ctx.fresh_int("nb")
            ctx.assume((nb >= 0) & (nb <= 2))
            inp["u"] = fresh_reals(ctx, "u", int(nb))
        elif kind == "sm":
            hs = fresh_ints(ctx, "h", 2)
            increasing(ctx, hs, lo=-(nn - 1))
            ctx.assume(hs[-1] <= 4)
            inp["fh"] = hs
        elif kind == "smopt":
            inp["fh"] = [1]
            inp["tok"] = fresh_reals(ctx, "opt", len(SM_OPTIONS[cell["which"]]["ctor"]))  # one opaque value per option
        return inp

    def _series(self, W, inp):
        pd = W.pd
        n, s0 = inp["n"], inp["s0"]
        idx = pd.RangeIndex(s0, s0 + n) if inp["range_index"] else pd.Index([s0 + i for i in range(n)])
        return pd.Series(inp["y"], index=idx)

    def scenario(self, W, inp, cell):
        np, pd = W.np, W.pd
        self._curW = W
        kind = cell["kind"]
        y = self._series(W, inp)
        fh = np.array(inp["fh"])
        if kind in ("naive", "insample"):
            NF = W.load(NAIVE).NaiveForecaster
            if kind == "naive":
                f = NF(strategy=cell["strategy"], sp=inp["sp"], window_length=inp["wl"])
            else:
                f = NF(strategy=cell["strategy"], sp=1, window_length=inp["wl"])
            try:
                if inp.get("via_update"):
                    f.fit(y.iloc[:-1])
                    f.update(y.iloc[-1:])
                    pred = f.predict(fh)
                elif inp.get("fh_in_fit"):
                    f.fit(y, fh=fh)
                    pred = f.predict()
                else:
                    f.fit(y)
                    if inp.get("failed_before"):
                        # in-sample forecasts with exogenous data are not supported: the request is refused part-way
                        # through the moving-cutoff loop; the caller carries on with a supported request
                        n0, s00 = inp["n"], inp["s0"]
                        Xf = pd.DataFrame({"x": [0.0] * (n0 + 2)}, index=pd.RangeIndex(s00, s00 + n0 + 2))
                        try:
                            f.predict(np.array([0, 1]), X=Xf)
                            inp_refused = False
                        except NotImplementedError:
                            inp_refused = True
                    pred = f.predict(fh)
                    if kind == "insample" and not inp.get("failed_before"):
                        again = f.predict()  # the horizon stored by the request above, used again
                        return {"rejected": False, "index": L(pred.index), "values": L(pred.values), "cutoff": S(f.cutoff), "again": [L(again.index), L(again.values)]}
            except ValueError:
                return {"rejected": True}
            return {"rejected": False, "index": L(pred.index), "values": L(pred.values), "cutoff": S(f.cutoff)}
        if kind == "poly":
            PF = W.load(TREND).PolynomialTrendForecaster
            f = PF(degree=cell["degree"], with_intercept=cell["icpt"])
            if inp["u"]:
                # one horizon object, given at fit and resolved again after the cutoff has moved
                FHc = W.load("sktime.forecasting.base").ForecastingHorizon
                fh_obj = FHc(np.array(inp["fh"]))
                f.fit(y, fh=fh_obj)
                f.predict()
            else:
                # the object is not fresh: it was fitted before with the other intercept setting, then re-configured
                f.set_params(with_intercept=not cell["icpt"])
                try:
                    f.fit(y)
                except ValueError:
                    pass
                f.set_params(with_intercept=cell["icpt"])
                f.fit(y)
            if inp["u"]:
                n0 = inp["n"]
                idx_u = pd.RangeIndex(inp["s0"] + n0, inp["s0"] + n0 + len(inp["u"])) if inp["range_index"] else pd.Index([inp["s0"] + n0 + i for i in range(len(inp["u"]))])
                f.update(pd.Series(inp["u"], index=idx_u), update_params=False)
                pred = f.predict()
            else:
                pred = f.predict(fh)
            return {"rejected": False, "index": L(pred.index), "values": L(pred.values), "cutoff": S(f.cutoff)}
        if kind == "sm":
            ad = W.load(SMAD)
            calls = []
            s0 = inp["s0"]

            class Res:
                def predict(self, start, end):
                    calls.append([S(start), S(end)])
                    k = int(end - start) + 1
                    pos = [start + i for i in range(k)]
                    return pd.Series([W.uf("sm_forecast", [p], "i>r") for p in pos], index=pd.RangeIndex(s0 + start, s0 + end + 1))

            class Stub(ad._StatsModelsAdapter):
                def _fit_forecaster(self, y_train, X_train=None):
                    self._fitted_forecaster = Res()

            f = Stub()
            f.fit(y)
            pred = f.predict(fh)
            return {"rejected": False, "index": L(pred.index), "values": L(pred.values), "cutoff": S(f.cutoff), "calls": calls, "y_index_is_range": type(f._y.index).__name__ == "RangeIndex"}
        if kind == "smopt":
            spec = SM_OPTIONS[cell["which"]]
            mod = W.load(spec["module"])
            rec = []
            s0 = inp["s0"]

            class Res:
                params = {"smoothing_level": 0.5}

                def predict(self, start, end):
                    return pd.Series([W.uf("sm_forecast", [start + i], "i>r") for i in range(int(end - start) + 1)], index=pd.RangeIndex(s0 + start, s0 + end + 1))

            class Model:
                def __init__(self, endog, **kw):
                    rec.append({"call": "init", "kw": {k: S(v) for k, v in kw.items()}, "idx": L(endog.index), "vals": L(endog.values)})

                def fit(self, **kw):
                    rec.append({"call": "fit", "kw": {k: S(v) for k, v in kw.items()}})
                    return Res()

            old = getattr(mod, spec["attr"])
            setattr(mod, spec["attr"], Model)
            try:
                opts = dict(zip(spec["ctor"], inp["tok"]))
                f = getattr(mod, spec["cls"])(**opts)
                f.fit(y)
                pred = f.predict(fh)
            finally:
                setattr(mod, spec["attr"], old)
            return {"rejected": False, "index": L(pred.index), "values": L(pred.values), "cutoff": S(f.cutoff), "rec": rec}
        raise AssertionError(kind)

    # ------------------------------------------------------------------
    def oracle(self, P, inp, out, cell):
        kind = cell["kind"]
        n, s0, y, fh = inp["n"], inp["s0"], inp["y"], inp["fh"]
        nbp = len(inp.get("u") or []) if kind == "poly" else 0
        c = s0 + n - 1 + nbp
        if kind == "smopt":
            spec = SM_OPTIONS[cell["which"]]
            opts = dict(zip(spec["ctor"], inp["tok"]))
            rec = out["rec"]
            P.check("statsmodels-options-forwarded", [r["call"] for r in rec] == ["init", "fit"], {"calls": [r["call"] for r in rec]})
            if [r["call"] for r in rec] != ["init", "fit"]:
                return
            for r, mapping in ((rec[0], spec["init"]), (rec[1], spec["fit"])):
                P.check("statsmodels-options-forwarded", sorted(r["kw"]) == sorted(mapping), {"call": r["call"], "missing": sorted(set(mapping) - set(r["kw"])), "unexpected": sorted(set(r["kw"]) - set(mapping))})
                for sm_name, own in mapping.items():
                    if sm_name in r["kw"]:
                        P.eq("statsmodels-options-forwarded", r["kw"][sm_name], opts[own], {"call": r["call"], "option": sm_name})
            P.check("statsmodels-options-forwarded", len(rec[0]["idx"]) == n)
            for a, v, i in zip(rec[0]["idx"], rec[0]["vals"], range(n)):
                P.eq("statsmodels-options-forwarded", a, s0 + i)
                P.eq("statsmodels-options-forwarded", v, y[i])
            P.eq("statsmodels-values", out["values"][0], self._uf(P, inp, "sm_forecast", [n], "i>r"))
            P.eq("index", out["index"][0], c + 1)
            return
        if kind == "naive":
            strat, sp, wl = cell["strategy"], inp["sp"], inp["wl"]
            if strat == "last":
                weff = sp
            else:
                weff = n if wl is None else wl
            bad = weff > n
            if strat == "mean" and sp > 1 and wl is not None and wl < sp:
                bad = True
            if strat == "drift" and wl == 1:
                bad = True
            if out["rejected"]:
                P.check("reject-iff-window-does-not-fit", bad)
                return
            P.check("reject-iff-window-does-not-fit", not bad)
        P.eq("cutoff", out["cutoff"], c)
        P.check("index", len(out["index"]) == len(fh) and len(out["values"]) == len(fh))
        if len(out["index"]) != len(fh):
            return
        for lab, h in zip(out["index"], fh):
            P.eq("index", lab, c + h)
        vals = out["values"]
        if kind == "naive":
            for v, h in zip(vals, fh):
                hh = int(h) if P.sym else h
                if strat == "last" and sp == 1:
                    P.eq("last", v, y[n - 1])
                elif strat == "last":
                    P.eq("seasonal-last", v, y[n - sp + ((hh - 1) % sp)])
                elif strat == "mean" and sp == 1:
                    obs = [t for t in y[n - weff :] if not is_nan(t)]
                    if not obs:
                        P.check("mean", is_nan(v), {"what": "a window without observations forecasts NaN"})
                    else:
                        P.eq("mean", v, sum(obs) / len(obs))
                elif strat == "mean":
                    # same-season values inside the window, seasons aligned with the END of the series
                    pos = [i for i in range(n - weff, n) if (n - 1 + hh - i) % sp == 0]
                    if not pos:
                        P.check("seasonal-mean", is_nan(v))
                    else:
                        P.eq("seasonal-mean", v, sum(y[i] for i in pos) / len(pos))
                else:
                    P.eq("drift", v, y[n - 1] + hh * (y[n - 1] - y[n - weff]) / (weff - 1))
        elif kind == "insample":
            wl = inp["wl"]
            if "again" in out:
                ai, av = out["again"]
                P.check("in-sample", len(ai) == len(out["index"]), {"what": "predict() re-using the stored horizon", "n_labels": len(ai)})
                for a, b_, va, vb in zip(ai, out["index"], av, vals):
                    P.eq("in-sample", a, b_, {"what": "predict() re-using the stored horizon"})
                    if is_nan(vb) or is_nan(va):
                        P.check("in-sample", is_nan(va) and is_nan(vb), {"what": "predict() re-using the stored horizon"})
                    else:
                        P.eq("in-sample", va, vb, {"what": "predict() re-using the stored horizon"})
            for v, h in zip(vals, fh):
                p = n - 1 + h  # position of the target
                if h > 0:
                    win = y[n - wl :]
                else:
                    win = y[max(0, p - wl) : p]
                if not win:
                    P.check("in-sample", is_nan(v))
                elif cell["strategy"] == "last":
                    P.eq("in-sample", v, win[-1])
                else:
                    P.eq("in-sample", v, sum(win) / len(win))
        elif kind == "poly":
            deg, icpt = cell["degree"], cell["icpt"]
            basis = list(range(0 if icpt else 1, deg + 1))
            ts = [n - 1 + nbp + h for h in fh]  # zero-based time of the requested points, counted from the first training point
            if P.sym:
                ctx = P.ctx
                b = {d: ctx.fresh_real("beta%d" % d) for d in basis}
                for d in basis:  # normal equations: residual orthogonal to every basis column
                    ctx.assume(sum((t ** d) * (y[t] - sum(b[e] * (t ** e) for e in basis)) for t in range(n)) == 0)
                for v, t in zip(vals, ts):
                    P.eq("poly-least-squares", v, sum(b[e] * (t ** e) for e in basis))
            else:
                import numpy as np

                A = np.array([[float(t) ** d for d in basis] for t in range(n)])
                beta = np.linalg.lstsq(A, np.array(y, dtype=float), rcond=None)[0]
                for v, t in zip(vals, ts):
                    P.eq("poly-least-squares", v, float(sum(bb * float(t) ** d for bb, d in zip(beta, basis))))
        elif kind == "sm":
            calls = out["calls"]
            P.check("statsmodels-range", len(calls) == 1 and out["y_index_is_range"])
            if len(calls) == 1:
                P.eq("statsmodels-range", calls[0][0], n - 1 + fh[0])
                P.eq("statsmodels-range", calls[0][1], n - 1 + fh[-1])
            for v, h in zip(vals, fh):
                P.eq("statsmodels-values", v, self._uf(P, inp, "sm_forecast", [n - 1 + h], "i>r"))

    def _uf(self, P, inp, name, args, sig):
        return self._curW.uf(name, args, sig)

    def signature(self, label, inp, cell):
        sig = "%s/%s" % (cell["name"].rsplit("-k", 1)[0], label)
        if label == "seasonal-mean":
            weff = inp["n"] if inp.get("wl") is None else inp["wl"]
            sig += "/window%%sp%s0" % ("!=" if weff % inp["sp"] else "==")
        return sig


HARNESS = C11()
