"""C14 -- closed-form transformers compute exactly the function they document."""
import math
import types
import warnings
from fractions import Fraction

from ..runner import Harness
from ..hutil import L, S, fresh_reals
from .. import worlds, symx
from ..symx import is_sym

PANEL = "sktime.transformations.panel"


def is_nan(x):
    return isinstance(x, float) and x != x


def _ends_diff(x):
    """a feature function without an `axis` argument: last minus first value of the slice"""
    return x[-1] - x[0]


def cells_of(df):
    """nested frame -> [instance][column] -> list of values"""
    return [[[S(v) for v in list(df.iloc[i, j])] for j in range(df.shape[1])] for i in range(df.shape[0])]


def _interp1d_contract(x, y, kind="linear", **kw):
    """scipy.interpolate.interp1d by its contract (see `stubs`)"""
    import numpy as np

    xs = [Fraction(float(v)) for v in x]
    ys = list(y)
    if len(xs) < 2:
        raise ValueError("x and y arrays must have at least 2 entries")
    if len(xs) != len(ys):
        raise ValueError("x and y arrays must be equal in length along interpolation axis.")
    if any(a >= b for a, b in zip(xs, xs[1:])):
        order = sorted(range(len(xs)), key=lambda i: xs[i])  # (assume_sorted=False: scipy sorts)
        xs, ys = [xs[i] for i in order], [ys[i] for i in order]

    def f(q):
        out = np.empty(len(q), dtype=object)
        for j, v in enumerate(q):
            v = Fraction(float(v))
            if v < xs[0]:
                raise ValueError("A value in x_new is below the interpolation range.")
            if v > xs[-1]:
                raise ValueError("A value in x_new is above the interpolation range.")
            hi = 1
            while hi < len(xs) - 1 and xs[hi] < v:
                hi += 1
            lo = hi - 1
            out[j] = ys[lo] + (ys[hi] - ys[lo]) * ((v - xs[lo]) / (xs[hi] - xs[lo]))
        return out

    return f


def _acf_contract(getW):
    def acf(x, adjusted=False, nlags=None, qstat=False, fft=True, alpha=None, missing="none", **kw):
        import numpy as np

        W = getW()
        z = [S(v) for v in list(x)]
        n = len(z)
        if nlags is None:
            nlags = min(int(10 * math.log10(n)), n - 1)
        if qstat or alpha is not None:
            raise AssertionError("acf contract stub: qstat / alpha are outside the harness")
        tag = "adj%d_fft%d_%s" % (int(bool(adjusted)), int(bool(fft)), missing)
        return np.array([W.uf("acf%d_%s_%d" % (k, tag, n), z, "r" * n + ">r") for k in range(int(nlags) + 1)], dtype=object)

    return acf


class C14(Harness):
    pid = "C14"
    labels = (
        "padding", "truncation", "paa-frame-means", "tabularizer", "column-concatenator", "interval-segmenter", "sliding-window-segmenter",
        "interval-features", "row-transformer", "slope", "cosine", "column-wise-adaptor", "imputer-rule", "linear-interpolation", "autocorrelation", "rows-in-input-order", "requested-length", "reject-iff-invalid",
    )
    stubs = (
        "panel cell values are symbolic tokens (z3 reals) in object arrays; the transformers run on the real numpy / pandas (concrete world with token-capable np.zeros/full/empty)",
        "sqrt / cos on tokens := the engine's uninterpreted sqrt (s>=0, s*s=x) / cos",
        "row transformer's wrapped series transformer := elementwise uninterpreted function",
        "RandomIntervalFeatureExtractor: intervals drawn by the real numpy RNG for a concrete random_state; the features of those intervals are symbolic",
        "scipy.interpolate.interp1d (symbolic runs) := its documented contract: piecewise-linear through (x_i, y_i) for concrete float abscissae, ValueError outside [x_0, x_-1] or with fewer than two points; replays run the real scipy",
        "statsmodels acf (symbolic runs) := recording contract stub: r_k = uninterpreted A_k[adjusted, fft, missing](z_0..z_n-1) for k = 0..nlags (nlags=None: min(int(10*log10(n)), n-1)); replays run the real statsmodels against the textbook formula",
    )
    assumptions = ("PAA: exact equality where series_length / num_intervals is a binary fraction, otherwise |got - want| <= 1e-9 * (sum|x| + 1) (float frame arithmetic of the code)", "no missing values except in the imputer cells")
    outside = ("the numerics inside scipy's interp1d / statsmodels' acf themselves (contract stubs in symbolic runs, the real libraries in replays)", "partial autocorrelation, qstat=True", "tsfresh / catch22 / DWT / HOG1D / PCA numerics", "panels larger than the stated sizes")
    max_validate_quick = 16

    def bounds(self, tier):
        q = tier == "quick"
        return {"instances": "1..2" if q else "1..3", "columns": "1..2", "series_length": "2..%d (unequal lengths for padding / truncation)" % (5 if q else 6), "paa_intervals": "1..length"}

    def cells(self, tier):
        names = ["padding", "padding-int", "truncation", "paa", "tabularizer", "concatenator", "interval-int", "interval-array", "sliding", "features", "row", "row-mean", "slope", "cosine", "adaptor"]
        out = [{"name": n, "kind": n, "cost": 2} for n in names]
        for m in ("ffill", "bfill", "pad", "backfill", "constant", "mean", "median", "linear"):  # ("pad" / "backfill": the documented aliases)
            out.append({"name": "imputer-" + m, "kind": "imputer", "method": m, "cost": 1})
        out.append({"name": "interpolator", "kind": "interpolator", "cost": 2})
        out.append({"name": "acf", "kind": "acf", "cost": 2})
        return out

    def make_world(self, kind, cell):
        if cell["kind"] == "imputer":  # pandas reductions cannot carry tokens: the pandas model is used instead
            return Harness.make_world(self, kind, cell)
        if cell["kind"] in ("interpolator", "acf") and kind == "sym":
            key = "_W_" + cell["kind"]
            W = self.__dict__.get(key)
            if W is None:
                from .c04 import numba_stub

                self.make_world("conc", {"kind": "x"})  # (pandas shims)
                if cell["kind"] == "interpolator":
                    ov = {"scipy": types.SimpleNamespace(interpolate=types.SimpleNamespace(interp1d=_interp1d_contract))}
                else:
                    ov = {"statsmodels.tsa.stattools": types.SimpleNamespace(acf=_acf_contract(lambda: self._curW), pacf=None)}
                W = worlds.make_conc_world(dict(ov, numba=numba_stub()))
                self.__dict__[key] = W
            return W
        W = self.__dict__.get("_W")
        if W is None:
            warnings.simplefilter("ignore")
            from .c04 import numba_stub

            W = worlds.make_conc_world({"numba": numba_stub()})
            import pandas as pd

            if not hasattr(pd.DataFrame, "applymap"):
                pd.DataFrame.applymap = pd.DataFrame.map
            self._W = W
        return W

    # ------------------------------------------------------------------
    def inputs(self, ctx, cell):
        inp = self._inputs(ctx, cell)
        if cell["kind"] in ("padding", "truncation", "paa", "tabularizer", "concatenator", "sliding", "interval-int", "row") and len(inp.get("x", [])) >= 2:
            # a shuffled panel: the instances' integer row labels are a permutation of 0..n-1 (reversed); rows stay in input order
            inp["shuffled_rows"] = bool(ctx.fresh_bool("shuffled_rows"))
        return inp

    def _inputs(self, ctx, cell):
        q = self._tier == "quick"
        k = cell["kind"]

        def choice(name, lo, hi):
            v = ctx.fresh_int(name)
            ctx.assume((v >= lo) & (v <= hi))
            return int(v)

        Lmax = 5 if q else 6
        inp = {}
        if k == "padding-int":
            # integer-valued cells (counts) and an arbitrary real fill value in [-2, 2]
            lens = [choice("len0", 1, 2), 3]
            inp["x"] = [[[3 * i + t + 1 for t in range(lens[i])]] for i in range(2)]
            inp["pad"] = choice("pad", 0, 4)
            if inp["pad"] and inp["pad"] < 3:
                ctx.assume(False)
            inp["fill"] = ctx.fresh_real("fill")
            ctx.assume((inp["fill"] >= -2) & (inp["fill"] <= 2))
            return inp
        if k in ("padding", "truncation"):
            ni = choice("ni", 1, 2)
            nc = choice("nc", 1, 2)
            lens = [choice("len%d" % i, 1 if k == "padding" else 2, 3) for i in range(ni)]
            inp["x"] = [[fresh_reals(ctx, "x%d_%d_" % (i, j), lens[i]) for j in range(nc)] for i in range(ni)]
            if k == "padding":
                inp["pad"] = choice("pad", 0, 5)  # 0 = None
                inp["fill"] = ctx.fresh_real("fill")
            else:
                inp["lower"] = choice("lower", -1, 3)  # -1 = None
                inp["upper"] = choice("upper", 0, 4)  # 0 = None
                if inp["upper"] and inp["upper"] <= max(inp["lower"], 0):
                    ctx.assume(False)
                if inp["upper"] and inp["lower"] < 0:
                    ctx.assume(False)
                if inp["lower"] == 0 and not inp["upper"]:
                    ctx.assume(False)  # an empty prefix is not a meaningful request
                if inp["upper"] and inp["upper"] > min(lens):
                    ctx.assume(False)  # the requested range must exist in every series
            return inp
        if k == "imputer":
            n = choice("n", 3, 4)
            vals = fresh_reals(ctx, "z", n)
            mask = [bool(ctx.fresh_bool("nan%d" % i)) for i in range(n)]
            if all(mask) or not any(mask):
                ctx.assume(False)
            inp["z"] = [float("nan") if m else v for v, m in zip(vals, mask)]
            inp["value"] = ctx.fresh_real("value")
            return inp
        if k == "interpolator":
            ni = choice("ni", 1, 2)
            lens = [choice("len%d" % i, 2, 4) for i in range(ni)]
            inp["x"] = [[fresh_reals(ctx, "x%d_0_" % i, lens[i])] for i in range(ni)]
            inp["length"] = choice("length", 1, 5)
            inp["gapped_index"] = choice("gapped_index", 0, 1)  # the cells' own time labels are not equally spaced
            return inp
        if k == "acf":
            n = choice("n", 3, 5)
            inp["x"] = [[fresh_reals(ctx, "z", n)]]
            inp["n_lags"] = choice("n_lags", 0, n - 1)  # 0 = None
            inp["adjusted"] = bool(ctx.fresh_bool("adjusted"))
            inp["fft"] = bool(ctx.fresh_bool("fft"))
            inp["missing"] = ["none", "drop"][choice("missing", 0, 1)]
            z = inp["x"][0][0]
            ctx.assume(z[0] != z[1])  # (a constant series has no autocorrelation)
            return inp
        ni = choice("ni", 1, 2 if q else 3)
        nc = 1 if k in ("interval-int", "interval-array", "sliding", "features", "slope", "paa", "adaptor") else choice("nc", 1, 2)
        Ln = choice("L", 2 if k != "features" else 4, Lmax)
        inp["x"] = [[fresh_reals(ctx, "x%d_%d_" % (i, j), Ln) for j in range(nc)] for i in range(ni)]
        if k == "paa":
            inp["m"] = choice("m", 1, Ln)
        if k == "interval-int":
            inp["k"] = choice("k", 1, max(1, Ln // 2))
        if k == "interval-array":
            a = choice("a", 0, Ln - 1)
            b = choice("b", a + 1, Ln)
            inp["iv"] = [[a, b], [0, Ln]]
        if k == "sliding":
            inp["w"] = choice("w", 1, 4)
        if k == "features":
            inp["seed"] = choice("seed", 0, 2)
        return inp

    # ------------------------------------------------------------------
    def _nested(self, x):
        import numpy as np
        import pandas as pd

        sym = any(is_sym(v) for inst in x for col in inst for v in col)
        df = pd.DataFrame()
        for j in range(len(x[0])):
            col = []
            for i in range(len(x)):
                a = np.empty(len(x[i][j]), dtype=object if sym else float)
                for t, v in enumerate(x[i][j]):
                    a[t] = v
                col.append(pd.Series(a))
            df["c%d" % j] = col
        return df, sym

    def scenario(self, W, inp, cell):
        import numpy as np
        import pandas as pd

        warnings.simplefilter("ignore")
        self._curW = W
        k = cell["kind"]
        if k == "imputer":
            IM = W.load("sktime.transformations.series.impute").Imputer
            z = W.pd.Series(inp["z"])
            t = IM(method=cell["method"], value=inp["value"] if cell["method"] == "constant" else None)
            r = t.fit(z).transform(z)
            o = {"vals": L(r.values), "idx": L(r.index)}
            if cell["method"] in ("mean", "median", "constant", "ffill", "bfill"):
                # a two-column series: every column is imputed from its own values (second column: the first one shifted by 10 and reversed)
                z2 = W.pd.DataFrame({"a": list(inp["z"]), "b": [v + 10 if not is_nan(v) else v for v in reversed(inp["z"])]})
                t2 = IM(method=cell["method"], value=inp["value"] if cell["method"] == "constant" else None)
                r2 = t2.fit(z2).transform(z2)
                o["frame"] = {"a": L(r2["a"].values), "b": L(r2["b"].values)}
            return o
        if k == "padding-int":
            X = pd.DataFrame({"c0": [pd.Series(np.array(inst[0], dtype="int64")) for inst in inp["x"]]})
            sym = is_sym(inp["fill"])
            cell = dict(cell, kind="padding")
        else:
            X, sym = self._nested(inp["x"])
        if inp.get("shuffled_rows"):
            X.index = list(reversed(range(X.shape[0])))
        worlds.TOKEN_MODE[0] = sym
        try:
            return self._panel(W, X, inp, cell, sym)
        finally:
            worlds.TOKEN_MODE[0] = False

    def _panel(self, W, X, inp, cell, sym):
        import numpy as np
        import pandas as pd

        k = cell["kind"]
        out = {}
        if k == "padding":
            PT = W.load(PANEL + ".padder").PaddingTransformer
            t = PT(pad_length=inp["pad"] or None, fill_value=inp["fill"])
            try:
                r = t.fit(X).transform(X)
            except ValueError:
                return {"rejected": True}
            return {"rejected": False, "cells": cells_of(r)}
        if k == "truncation":
            TT = W.load(PANEL + ".truncation").TruncationTransformer
            t = TT(lower=None if inp["lower"] < 0 else inp["lower"], upper=inp["upper"] or None)
            try:
                r = t.fit(X).transform(X)
            except ValueError:
                return {"rejected": True}
            o = {"rejected": False, "cells": cells_of(r)}
            if inp["lower"] < 0 and not inp["upper"]:
                # the bound found at fit (shortest training series) also applies to a later panel of longer series
                X2, _ = self._nested([[list(col) + [col[-1]] for col in inst] for inst in inp["x"]])
                o["later_panel"] = cells_of(t.transform(X2))
            return o
        if k == "paa":
            PAA = W.load(PANEL + ".dictionary_based._paa").PAA
            r = PAA(num_intervals=inp["m"]).fit(X).transform(X)
            return {"cells": cells_of(r), "cols": [str(c) for c in r.columns]}
        if k == "tabularizer":
            TB = W.load(PANEL + ".reduce").Tabularizer
            t = TB().fit(X)
            r = t.transform(X)
            if not hasattr(r, "to_numpy"):  # a 3-D array comes back as a plain 2-D array
                return {"table": [[S(v) for v in row] for row in r.tolist()]}
            back = t.inverse_transform(r.to_numpy() if not sym else r.to_numpy()) if not sym else None
            o = {"table": [[S(v) for v in row] for row in r.to_numpy().tolist()], "cols": [str(c) for c in r.columns], "index": [S(v) for v in r.index]}
            if back is not None:
                o["back"] = cells_of(back)
            return o
        if k == "concatenator":
            CC = W.load(PANEL + ".compose").ColumnConcatenator
            r = CC().fit(X).transform(X)
            return {"cells": cells_of(r)}
        if k in ("interval-int", "interval-array"):
            IS = W.load(PANEL + ".segment").IntervalSegmenter
            iv = inp["k"] if k == "interval-int" else np.array(inp["iv"])
            t = IS(intervals=iv)
            try:
                r = t.fit(X).transform(X)
            except ValueError:
                return {"rejected": True}
            return {"rejected": False, "cells": cells_of(r), "intervals": [[int(c[0]), int(c[-1])] for c in t.intervals_]}
        if k == "sliding":
            SW = W.load(PANEL + ".segment").SlidingWindowSegmenter
            r = SW(window_length=inp["w"]).fit(X).transform(X)
            return {"cells": cells_of(r)}
        if k == "features":
            FE = W.load(PANEL + ".summarize._extract").RandomIntervalFeatureExtractor
            slope = W.load("sktime.utils.slope_and_trend")._slope
            t = FE(n_intervals=2, features=[np.mean, np.std, slope, _ends_diff], random_state=inp["seed"])
            t.fit(X)
            r = t.transform(X)
            return {"table": [[S(v) for v in row] for row in r.to_numpy().tolist()], "intervals": [[int(a), int(b)] for a, b in t.intervals_], "cols": [str(c) for c in r.columns]}
        if k == "row":
            TB = W.load("sktime.transformations.base")._SeriesToSeriesTransformer
            RT = W.load(PANEL + ".compose").SeriesToSeriesRowTransformer

            class Tr(TB):
                """a transformer with fitted state: it learns a reference (the instance's first value) in fit"""

                def fit(self, Z, X=None):
                    self.ref_ = S(np.asarray(Z)[0, 0])
                    self._is_fitted = True
                    return self

                def transform(self, Z, X=None):
                    a = np.empty(Z.shape, dtype=object if sym else float)
                    for idx in np.ndindex(Z.shape):
                        a[idx] = W.uf("rowt2", [Z[idx], self.ref_], "rr>r")
                    return a

            r = RT(Tr(), check_transformer=True).fit(X).transform(X)
            return {"cells": cells_of(r)}
        if k == "row-mean":
            RP = W.load(PANEL + ".compose").SeriesToPrimitivesRowTransformer
            MT = W.load("sktime.transformations.series.summarize").MeanTransformer
            r = RP(MT(), check_transformer=False).fit(X).transform(X)
            return {"table": [[S(v) for v in row] for row in r.to_numpy().tolist()]}
        if k == "slope":
            slope = W.load("sktime.utils.slope_and_trend")._slope
            vals = []
            for inst in inp["x"]:
                a = np.empty(len(inst[0]), dtype=object if sym else float)
                for t_, v in enumerate(inst[0]):
                    a[t_] = v
                vals.append(S(np.asarray(slope(a)).ravel()[0]))
            return {"slopes": vals}
        if k == "adaptor":
            from sklearn.base import BaseEstimator, TransformerMixin

            class Sk(TransformerMixin, BaseEstimator):
                def fit(self, Xa, y=None):
                    self.ref_ = [Xa[0, j] for j in range(Xa.shape[1])]
                    return self

                def transform(self, Xa):
                    a = np.empty(Xa.shape, dtype=object if sym else float)
                    for idx in np.ndindex(Xa.shape):
                        a[idx] = W.uf("colt", [Xa[idx], self.ref_[idx[1]]], "rr>r")
                    return a

            AD = W.load("sktime.transformations.series.adapt").TabularToSeriesAdaptor
            ztrain = pd.Series(list(X.iloc[0, 0]), dtype=object if sym else float)
            znew = pd.Series(list(X.iloc[-1, 0])[::-1], dtype=object if sym else float)
            t = AD(Sk()).fit(ztrain)
            r = t.transform(znew)
            return {"vals": [S(v) for v in list(r)], "idx": [S(v) for v in r.index]}
        if k == "interpolator":
            TI = W.load(PANEL + ".interpolate").TSInterpolator
            if inp["gapped_index"]:
                for i in range(X.shape[0]):
                    c = X.iloc[i, 0]
                    c.index = [t if t < 2 else t + 3 for t in range(len(c))]
            r = TI(inp["length"]).fit(X).transform(X)
            return {"cells": cells_of(r), "index": [S(v) for v in r.index], "cols": [str(c) for c in r.columns]}
        if k == "acf":
            AC = W.load("sktime.transformations.series.acf").AutoCorrelationTransformer
            z = X.iloc[0, 0]
            if not sym:
                z = z.astype(float)
            r = AC(adjusted=inp["adjusted"], n_lags=inp["n_lags"] or None, fft=inp["fft"], missing=inp["missing"]).fit(z).transform(z)
            return {"vals": [S(v) for v in list(r)], "idx": [S(v) for v in r.index]}
        if k == "cosine":
            CT = W.load("sktime.transformations.series.cos").CosineTransformer
            z = X.iloc[0, 0]
            r = CT().fit(z).transform(z)
            return {"vals": [S(v) for v in list(r)], "idx": [S(v) for v in r.index]}
        raise AssertionError(k)

    def comparable(self, out, cell):
        if cell["kind"] in ("cosine", "acf"):
            return {"idx": out["idx"]}
        if cell["kind"] == "tabularizer":
            return {k: v for k, v in out.items() if k != "back"}  # inverse_transform goes through sklearn's check_array (concrete run only)
        return out

    # ------------------------------------------------------------------
    def oracle(self, P, inp, out, cell):
        W = self._curW
        k = cell["kind"]
        if k == "imputer":
            m = {"pad": "ffill", "backfill": "bfill"}.get(cell["method"], cell["method"])

            def judge(z, vals, detail):
                n = len(z)
                known = [i for i in range(n) if not is_nan(z[i])]
                P.check("rows-in-input-order", len(vals) == n, detail)
                for i in range(min(n, len(vals))):
                    if not is_nan(z[i]):
                        P.eq("imputer-rule", vals[i], z[i], detail)
                        continue
                    lo = [j for j in known if j < i]
                    hi = [j for j in known if j > i]
                    if m == "ffill":
                        want = z[lo[-1]] if lo else z[hi[0]]
                    elif m == "bfill":
                        want = z[hi[0]] if hi else z[lo[-1]]
                    elif m == "constant":
                        want = inp["value"]
                    elif m == "mean":
                        want = sum(z[j] for j in known) / len(known)
                    elif m == "median":
                        from .c06 import wmedian

                        want = wmedian([z[j] for j in known], None)
                    else:  # linear interpolation between the neighbouring observations, constant at the ends
                        if lo and hi:
                            a, b = lo[-1], hi[0]
                            fr = Fraction(i - a, b - a) if P.sym else (i - a) / (b - a)
                            want = z[a] + (z[b] - z[a]) * fr
                        else:
                            want = z[lo[-1]] if lo else z[hi[0]]
                    P.eq("imputer-rule", vals[i], want, dict(detail, method=m, pos=i))

            P.check("rows-in-input-order", out["idx"] == list(range(len(inp["z"]))))
            judge(inp["z"], out["vals"], {})
            if "frame" in out:
                judge(list(inp["z"]), out["frame"]["a"], {"column": "a of a two-column series"})
                judge([v + 10 if not is_nan(v) else v for v in reversed(inp["z"])], out["frame"]["b"], {"column": "b of a two-column series"})
            return
        x = inp["x"]
        ni, nc = len(x), len(x[0])

        def shape_ok(cells, ncols=None):
            ok = len(cells) == ni and all(len(r) == (nc if ncols is None else ncols) for r in cells)
            P.check("rows-in-input-order", ok)
            return ok

        if k in ("padding", "padding-int"):
            maxlen = max(len(x[i][j]) for i in range(ni) for j in range(nc))
            p = inp["pad"] or maxlen
            if out["rejected"] or p < maxlen:
                P.check("reject-iff-invalid", out["rejected"] and p < maxlen)
                return
            if not shape_ok(out["cells"]):
                return
            for i in range(ni):
                for j in range(nc):
                    c = out["cells"][i][j]
                    P.check("requested-length", len(c) == p)
                    for t in range(min(len(c), p)):
                        P.eq("padding", c[t], x[i][j][t] if t < len(x[i][j]) else inp["fill"])
            return
        if k == "truncation":
            minlen = min(len(x[i][j]) for i in range(ni) for j in range(nc))
            lower = minlen if inp["lower"] < 0 else inp["lower"]
            upper = inp["upper"] or None
            invalid = minlen < lower
            if out["rejected"] or invalid:
                P.check("reject-iff-invalid", out["rejected"] and invalid, {"lower": lower, "upper": upper, "minlen": minlen})
                return
            if not shape_ok(out["cells"]):
                return
            idxs = list(range(lower)) if upper is None else list(range(lower, upper))
            for i in range(ni):
                for j in range(nc):
                    c = out["cells"][i][j]
                    P.check("requested-length", len(c) == len(idxs))
                    for t, src in zip(range(len(c)), idxs):
                        P.eq("truncation", c[t], x[i][j][src])
            if "later_panel" in out:
                for i in range(ni):
                    for j in range(nc):
                        c = out["later_panel"][i][j]
                        P.check("requested-length", len(c) == len(idxs), {"what": "a later panel of longer series, bound fitted before", "got": len(c), "want": len(idxs)})
                        for t, src in zip(range(len(c)), idxs):
                            P.eq("truncation", c[t], x[i][j][src], {"what": "later panel"})
            return
        if k == "interpolator":
            m = inp["length"]
            if not shape_ok(out["cells"]):
                return
            P.check("rows-in-input-order", out["index"] == list(range(ni)) and out["cols"] == ["c0"])
            for i in range(ni):
                c, y = out["cells"][i][0], x[i][0]
                n = len(y)
                P.check("requested-length", len(c) == m, {"n": n, "length": m, "got": len(c)})
                for q in range(min(len(c), m)):
                    # the q-th of m equally spaced positions between the first and the last observation (positions, not labels)
                    pos = Fraction(q * (n - 1), m - 1) if m > 1 else Fraction(0)
                    lo = min(int(pos), n - 2)
                    fr = pos - lo
                    want = y[lo] + (y[lo + 1] - y[lo]) * (fr if P.sym else float(fr))
                    self._eq_tol(P, "linear-interpolation", c[q], want, y, False, {"instance": i, "pos": q})
            return
        if k == "acf":
            z = x[0][0]
            n = len(z)
            nl = inp["n_lags"] or min(int(10 * math.log10(n)), n - 1)
            P.check("requested-length", len(out["vals"]) == nl + 1 and out["idx"] == list(range(nl + 1)), {"n": n, "n_lags": inp["n_lags"], "got": len(out["vals"])})
            for kk in range(min(nl + 1, len(out["vals"]))):
                if P.sym:
                    tag = "adj%d_fft%d_%s" % (int(inp["adjusted"]), int(inp["fft"]), inp["missing"])
                    want = W.uf("acf%d_%s_%d" % (kk, tag, n), z, "r" * n + ">r")
                else:
                    mu = sum(z) / n
                    c0 = sum((v - mu) ** 2 for v in z) / n
                    ck = sum((z[t] - mu) * (z[t + kk] - mu) for t in range(n - kk)) / ((n - kk) if inp["adjusted"] else n)
                    want = ck / c0
                P.eq("autocorrelation", out["vals"][kk], want, {"lag": kk, "adjusted": inp["adjusted"]})
            return
        Ln = len(x[0][0])
        if k == "paa":
            m = inp["m"]
            if not shape_ok(out["cells"]):
                return
            ell = Fraction(Ln, m)
            dyadic = ell.denominator & (ell.denominator - 1) == 0
            for i in range(ni):
                c = out["cells"][i][0]
                P.check("requested-length", len(c) == m, {"L": Ln, "m": m, "got": len(c)})
                for f in range(min(len(c), m)):
                    a, b = f * ell, (f + 1) * ell
                    tot = 0
                    for t in range(Ln):
                        ov = min(b, t + 1) - max(a, t)
                        if ov > 0:
                            tot = tot + (ov if P.sym else float(ov)) * x[i][0][t]
                    want = tot / (ell if P.sym else float(ell))
                    if dyadic or not P.sym:
                        P.eq("paa-frame-means", c[f], want, {"L": Ln, "m": m, "frame": f})
                    else:
                        d = c[f] - want
                        bound = Fraction(1, 10 ** 9) * (sum(abs(v) for v in x[i][0]) + 1)
                        P.check("paa-frame-means", (d <= bound) & (d >= -bound), {"L": Ln, "m": m, "frame": f})
            return
        if k == "tabularizer":
            tab = out["table"]
            want_index = list(reversed(range(ni))) if inp.get("shuffled_rows") else list(range(ni))  # (the instances' own labels are carried)
            P.check("rows-in-input-order", len(tab) == ni and out["index"] == want_index)
            for i in range(min(ni, len(tab))):
                P.check("requested-length", len(tab[i]) == nc * Ln)
                for j in range(nc):
                    for t in range(Ln):
                        if j * Ln + t < len(tab[i]):
                            P.eq("tabularizer", tab[i][j * Ln + t], x[i][j][t])
            P.check("tabularizer", out["cols"] == ["c%d__%d" % (j, t) for j in range(nc) for t in range(Ln)])
            if "back" in out:
                for i in range(ni):
                    flat = [x[i][j][t] for j in range(nc) for t in range(Ln)]
                    for a, b in zip(out["back"][i][0], flat):
                        P.eq("tabularizer", a, b)
            return
        if k == "concatenator":
            if not shape_ok(out["cells"], 1):
                return
            for i in range(ni):
                flat = [x[i][j][t] for j in range(nc) for t in range(Ln)]
                P.check("requested-length", len(out["cells"][i][0]) == len(flat))
                for a, b in zip(out["cells"][i][0], flat):
                    P.eq("column-concatenator", a, b)
            return
        if k in ("interval-int", "interval-array"):
            if k == "interval-int":
                kk = inp["k"]
                invalid = kk > Ln // 2
                if out["rejected"] or invalid:
                    P.check("reject-iff-invalid", out["rejected"] and invalid)
                    return
                # equal chunks of the time axis (numpy array_split sizes), every time point in exactly one segment
                base, extra = divmod(Ln, kk)
                bounds, s = [], 0
                for c in range(kk):
                    e = s + base + (1 if c < extra else 0)
                    bounds.append((s, e))
                    s = e
            else:
                if out["rejected"]:
                    P.check("reject-iff-invalid", False)
                    return
                bounds = [tuple(b) for b in inp["iv"]]
            if not shape_ok(out["cells"], len(bounds)):
                return
            for i in range(ni):
                for c, (s, e) in enumerate(bounds):
                    seg = out["cells"][i][c]
                    P.check("requested-length", len(seg) == e - s, {"segment": [s, e], "got": len(seg), "kind": k})
                    for t, v in zip(range(s, e), seg):
                        P.eq("interval-segmenter", v, x[i][0][t])
            return
        if k == "sliding":
            w = inp["w"]
            pad = w // 2
            if not shape_ok(out["cells"], Ln):
                return
            for i in range(ni):
                padded = [x[i][0][0]] * pad + list(x[i][0]) + [x[i][0][-1]] * pad
                for t in range(Ln):
                    win = out["cells"][i][t]
                    P.check("requested-length", len(win) == w)
                    for a, b in zip(win, padded[t : t + w]):
                        P.eq("sliding-window-segmenter", a, b)
            return
        if k == "features":
            ivs = out["intervals"]
            tab = out["table"]
            P.check("rows-in-input-order", len(tab) == ni and all(len(r) == 4 * len(ivs) for r in tab))
            for a, b in ivs:
                P.check("interval-features", 0 <= a < b <= Ln)
            P.check("interval-features", out["cols"] == ["%d_%d_%s" % (a, b, f) for f in ("mean", "std", "_slope", "_ends_diff") for a, b in ivs])
            for i in range(min(ni, len(tab))):
                col = 0
                for fname in ("mean", "std", "slope", "ends_diff"):
                    for a, b in ivs:
                        seg = x[i][0][a:b]
                        n = len(seg)
                        mean = sum(seg) / n
                        if fname == "ends_diff":  # a plain Python feature (no `axis` keyword: applied slice by slice)
                            P.eq("interval-features", tab[i][col], seg[-1] - seg[0], {"feature": fname, "interval": [a, b]})
                            col += 1
                            continue
                        if fname == "mean":
                            want = mean
                        elif fname == "std":
                            var = sum((v - mean) * (v - mean) for v in seg) / n
                            want = symx.sym_sqrt(var) if P.sym else math.sqrt(var)
                        else:
                            if n == 1:
                                col += 1
                                continue  # slope of a single point: 0/0
                            ts = [t + 1 for t in range(n)]
                            tbar = Fraction(sum(ts), n) if P.sym else sum(ts) / n
                            want = sum((t - tbar) * (v - mean) for t, v in zip(ts, seg)) / sum((t - tbar) * (t - tbar) for t in ts)
                        self._eq_tol(P, "interval-features", tab[i][col], want, seg, exact=(n & (n - 1) == 0) and fname != "std", detail={"feature": fname, "interval": [a, b]})
                        col += 1
            return
        if k == "row-mean":
            tab = out["table"]
            P.check("rows-in-input-order", len(tab) == ni and all(len(r) == nc for r in tab))
            for i in range(min(ni, len(tab))):
                for j in range(min(nc, len(tab[i]))):
                    P.eq("row-transformer", tab[i][j], sum(x[i][j]) / len(x[i][j]), {"what": "mean of the instance's own series in that column"})
            return
        if k == "row":
            if not shape_ok(out["cells"]):
                return
            for i in range(ni):
                for j in range(nc):
                    P.check("requested-length", len(out["cells"][i][j]) == Ln)
                    for a, v in zip(out["cells"][i][j], x[i][j]):
                        P.eq("row-transformer", a, W.uf("rowt2", [v, x[i][0][0]], "rr>r"))  # (fitted on the instance's own series)
            return
        if k == "slope":
            for i in range(ni):
                seg = x[i][0]
                n = len(seg)
                ts = [t + 1 for t in range(n)]
                tbar = Fraction(sum(ts), n) if P.sym else sum(ts) / n
                mean = sum(seg) / n
                want = sum((t - tbar) * (v - mean) for t, v in zip(ts, seg)) / sum((t - tbar) * (t - tbar) for t in ts)
                self._eq_tol(P, "slope", out["slopes"][i], want, seg, exact=(n & (n - 1) == 0))
            return
        if k == "adaptor":
            P.check("rows-in-input-order", out["idx"] == list(range(Ln)) and len(out["vals"]) == Ln)
            ref = x[0][0][0]  # learnt from the series passed to fit, not from the one being transformed
            for a, v in zip(out["vals"], list(x[-1][0])[::-1]):
                P.eq("column-wise-adaptor", a, W.uf("colt", [v, ref], "rr>r"))
            return
        if k == "cosine":
            P.check("rows-in-input-order", out["idx"] == list(range(Ln)) and len(out["vals"]) == Ln)
            if P.sym:
                from .. import mnp

                for a, v in zip(out["vals"], x[0][0]):
                    P.eq("cosine", a, symx.wrap(mnp.UF_COS(symx.zreal(v))))
            else:
                for a, v in zip(out["vals"], x[0][0]):
                    P.eq("cosine", a, math.cos(v))

    @staticmethod
    def _eq_tol(P, label, got, want, seg, exact, detail=None):
        """exact equality where the code's float constants are exact, else equality up to the rounding of
        those constants: |got - want| <= 1e-9 * (sum|x| + 1)"""
        if exact or not P.sym:
            return P.eq(label, got, want, detail)
        d = got - want
        bound = Fraction(1, 10 ** 9) * (sum(abs(v) for v in seg) + 1)
        return P.check(label, (d <= bound) & (d >= -bound), detail)

    def signature(self, label, inp, cell, detail=None):
        d = detail or {}
        return "%s/%s%s" % (cell["name"], label, ("/" + str(d.get("kind"))) if d.get("kind") else "")


HARNESS = C14()


def run_check(tier, seed, jobs=None, only=None):
    from .. import runner

    HARNESS._tier = tier
    return runner.run_check(HARNESS, tier, seed, jobs=jobs, only=only)
