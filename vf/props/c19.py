"""C19 -- benchmark runs are exactly-once, resumable and store what was actually predicted."""
import os
import shutil
import tempfile

from ..runner import Harness
from ..hutil import L, S
from .. import worlds
from . import c19_est as est

ORCH = "sktime.benchmarking.orchestration"


S2_DOTTED = "s2.v1"


class C19(Harness):
    pid = "C19"
    labels = (
        "skip-iff-nothing-missing-and-no-overwrite",
        "one-fit-per-executed-iteration",
        "writes-exactly-the-missing-or-overwritten-records",
        "stored-record-is-honest",
        "invalid-flag-combination-rejected",
        "resume-produces-exactly-the-missing",
        "resume-leaves-completed-records-untouched",
        "final-store-equals-uninterrupted-run",
        "registry-equals-uninterrupted-run",
        "third-run-performs-no-fits",
        "overwrite-recomputes-everything",
        "ram-results-read-back",
        "fit-only-run-saves-every-fitted-strategy",
    )
    stubs = (
        "estimator := counting deterministic regressor that raises at its K-th fit/predict call (K symbolic: `count == K` forks over every failure point, plus 'no failure')",
        "one-iteration harness: results store := recording BaseResults subclass whose existence checks answer arbitrary (symbolic) Booleans",
        "pd.Timestamp.now := real clock (timing columns ignored)",
    )
    assumptions = ("data are concrete (the property is about control flow); flags, store state and failure point are symbolic", "deterministic estimators")
    outside = ("classification tasks with predict_proba", "UEADataset file loading (C18)", "more than 2 datasets x 2 strategies x 2 folds")
    cell_timeout = {"quick": 400, "thorough": 1500}
    max_validate_quick = 12

    def bounds(self, tier):
        return {"iteration": "1 dataset x 1 strategy x 1 fold, 4 flags + 3 store-state booleans symbolic", "resume": "2 datasets x 2 strategies x 2 folds, every failure point K in 1..total calls", "cv": ["KFold(2)", "SingleSplit", "PresplitFilesCV"]}

    def cells(self, tier):
        out = [{"name": "iteration-%s" % cv, "kind": "iteration", "cv": cv, "cost": 2} for cv in ("single", "presplit", "presplit-interleaved")]
        out.append({"name": "registry-merge", "kind": "merge", "cost": 3, "max_validate": 8})
        for pot in (False, True):
            for savefit in (True, False):
                out.append({"name": "resume-%s-%s" % ("train+test" if pot else "test", "savefit" if savefit else "nosave"), "kind": "resume", "pot": pot, "savefit": savefit, "cost": 5, "max_validate": 8})
        out.append({"name": "ram-results", "kind": "ram", "cost": 1})
        out.append({"name": "fit-only", "kind": "fitonly", "cost": 1})
        return out

    def make_world(self, kind, cell):
        W = self.__dict__.get("_W")
        if W is None:
            import functools

            # the real functools (elsewhere lru_cache is the identity decorator): a memoised look-up in the
            # benchmarking code is state that survives between runs of one process, which is what resumption is about
            W = worlds.make_conc_world({"functools": functools}, register=True)
            self._W = W
        return W

    def inputs(self, ctx, cell):
        if cell["kind"] == "iteration":
            names = ["overwrite_predictions", "predict_on_train", "save_fitted_strategies", "overwrite_fitted_strategies", "train_exists", "test_exists", "fit_exists"]
            return {n: ctx.fresh_bool(n) for n in names}
        if cell["kind"] == "merge":
            # which strategies / datasets take part in the first and in the second run over the same on-disk store
            inp = {n: bool(ctx.fresh_bool(n)) for n in ("r1_s1", "r1_s2", "r1_dA", "r1_dB", "r2_s1", "r2_s2", "r2_dA", "r2_dB")}
            for r in ("r1", "r2"):
                if not (inp[r + "_s1"] or inp[r + "_s2"]) or not (inp[r + "_dA"] or inp[r + "_dB"]):
                    ctx.assume(False)
            return inp
        if cell["kind"] in ("resume", "fitonly"):
            K = ctx.fresh_int("K")
            ctx.assume(K >= 1)
            return {"K": K}
        return {}

    # ------------------------------------------------------------------
    def _data(self, W, presplit=False, seed=0):
        pd = W.pd
        import numpy as np

        n = 6
        # (the second dataset has an integer-typed target: predictions are fractional, the stored / re-read records must stay so)
        df = pd.DataFrame({"dim_0": [float(1 + i + 10 * seed) for i in range(n)], "target": [(3 * i + seed) if seed == 1 else float(3 * i + seed) for i in range(n)]})
        if presplit == "interleaved":  # the pre-split labels need not form two blocks
            df.index = ["test", "train", "train", "test", "train", "train"]
        elif presplit:
            df.index = ["train"] * 4 + ["test"] * 2
        return df

    def _mk(self, W, cvname="kfold"):
        from sklearn.model_selection import KFold

        split = W.load("sktime.series_as_features.model_selection._split")
        if cvname == "kfold":
            return KFold(n_splits=2)
        if cvname == "single":
            return split.SingleSplit(test_size=2, shuffle=False)
        return split.PresplitFilesCV()  # "presplit", "presplit-interleaved"

    def scenario(self, W, inp, cell):
        import logging

        logging.disable(logging.CRITICAL)
        self._curW = W
        kind = cell["kind"]
        if kind == "iteration":
            return self._iteration(W, inp, cell)
        if kind == "resume":
            return self._resume(W, inp, cell)
        if kind == "fitonly":
            return self._fitonly(W, inp)
        if kind == "merge":
            return self._merge(W, inp)
        return self._ram(W)

    def _merge(self, W, inp):
        orch = W.load(ORCH)
        res = W.load("sktime.benchmarking.results")
        tasks = W.load("sktime.benchmarking.tasks")
        strat = W.load("sktime.benchmarking.strategies")
        data = W.load("sktime.benchmarking.data")
        import warnings
        from joblib import load

        root = tempfile.mkdtemp(prefix="vf_c19_")
        try:
            out = {}
            for r in ("r1", "r2"):
                with warnings.catch_warnings():
                    warnings.simplefilter("ignore")
                    results = res.HDDResults(root)
                dsets = [data.RAMDataset(self._data(W, seed=sd), nm) for nm, sd in (("dsA", 0), ("dsB", 1)) if inp["%s_d%s" % (r, nm[2:])]]
                strategies = [strat.TSRStrategy(est.CountingRegressor(slope=sl), name=nm) for nm, sl in (("s1", 2.0), ("s2", 3.0)) if inp["%s_%s" % (r, nm)]]
                est.STATE.update(n=0, K=None, fits=0, predicts=0, log=[])
                o = orch.Orchestrator([tasks.TSRTask(target="target") for _ in dsets], dsets, strategies, self._mk(W, "kfold"), results)
                o.fit_predict(overwrite_predictions=False, predict_on_train=False, save_fitted_strategies=False)
                master = load(os.path.join(root, "results.pickle"))
                out[r] = {"own": [sorted(results.strategy_names), sorted(results.dataset_names)], "master": [sorted(master.strategy_names), sorted(master.dataset_names)], "files": sorted(k for k in self._store(root))}
            return out
        finally:
            shutil.rmtree(root, ignore_errors=True)

    def _iteration(self, W, inp, cell):
        orch = W.load(ORCH)
        base = W.load("sktime.benchmarking.base")
        tasks = W.load("sktime.benchmarking.tasks")
        strat = W.load("sktime.benchmarking.strategies")
        data = W.load("sktime.benchmarking.data")
        calls = []

        class Rec(base.BaseResults):
            def check_predictions_exist(self, strategy_name, dataset_name, cv_fold, train_or_test):
                return inp["train_exists"] if train_or_test == "train" else inp["test_exists"]

            def check_fitted_strategy_exists(self, strategy_name, dataset_name, cv_fold):
                return inp["fit_exists"]

            def save_predictions(self, **kw):
                calls.append({"op": "pred:" + kw["train_or_test"], "index": [int(i) for i in kw["index"]], "y_true": [float(v) for v in kw["y_true"]], "y_pred": [float(v) for v in kw["y_pred"]], "cv_fold": kw["cv_fold"], "strategy": kw["strategy_name"], "dataset": kw["dataset_name"]})

            def save_fitted_strategy(self, strategy, dataset_name, cv_fold):
                calls.append({"op": "fitted", "strategy": strategy.name, "dataset": dataset_name, "cv_fold": cv_fold})

            def save(self):
                calls.append({"op": "save"})

        df = self._data(W, presplit={"presplit": True, "presplit-interleaved": "interleaved"}.get(cell["cv"], False))
        est.STATE.update(n=0, K=None, fits=0, predicts=0, log=[])
        o = orch.Orchestrator([tasks.TSRTask(target="target")], [data.RAMDataset(df, "ds")], [strat.TSRStrategy(est.CountingRegressor(), name="st")], self._mk(W, cell["cv"]), Rec())
        out = {"raised": None}
        try:
            o.fit_predict(overwrite_predictions=inp["overwrite_predictions"], predict_on_train=inp["predict_on_train"], save_fitted_strategies=inp["save_fitted_strategies"], overwrite_fitted_strategies=inp["overwrite_fitted_strategies"])
        except ValueError:
            out["raised"] = "ValueError"
        out["calls"] = calls
        out["fits"] = est.STATE["fits"]
        out["predicts"] = est.STATE["predicts"]
        return out

    # -- run / crash / rerun on disk ------------------------------------------------------------
    def _store(self, path):
        """files of the store (relative path -> bytes without the timing columns)"""
        import csv

        snap = {}
        for root, _, files in os.walk(path):
            for fn in files:
                p = os.path.join(root, fn)
                rel = os.path.relpath(p, path)
                if fn.endswith(".csv"):
                    with open(p) as fh:
                        rows = list(csv.DictReader(fh))
                    snap[rel] = [[r["index"], r["y_true"], r["y_pred"]] for r in rows]
                elif fn == "results.pickle":
                    continue
                else:
                    snap[rel] = "pickle"
        return snap

    def _stat(self, path):
        st = {}
        for root, _, files in os.walk(path):
            for fn in files:
                if fn == "results.pickle":
                    continue
                p = os.path.join(root, fn)
                with open(p, "rb") as fh:
                    st[os.path.relpath(p, path)] = (os.stat(p).st_mtime_ns, fh.read())
        return st

    def _run(self, W, path, cell, K=None, overwrite=False):
        orch = W.load(ORCH)
        res = W.load("sktime.benchmarking.results")
        tasks = W.load("sktime.benchmarking.tasks")
        strat = W.load("sktime.benchmarking.strategies")
        data = W.load("sktime.benchmarking.data")
        import warnings

        with warnings.catch_warnings():
            warnings.simplefilter("ignore")
            results = res.HDDResults(path)
        dsets = [data.RAMDataset(self._data(W, seed=0), "dsA"), data.RAMDataset(self._data(W, seed=1), "dsB")]
        strategies = [strat.TSRStrategy(est.CountingRegressor(slope=2.0), name="s1"), strat.TSRStrategy(est.CountingRegressor(slope=2.5), name=S2_DOTTED)]  # (a strategy name with a dot in it)
        o = orch.Orchestrator([tasks.TSRTask(target="target"), tasks.TSRTask(target="target")], dsets, strategies, self._mk(W, "kfold"), results)
        est.STATE.update(n=0, K=K, fits=0, predicts=0, log=[])
        crashed = False
        try:
            o.fit_predict(overwrite_predictions=overwrite, predict_on_train=cell["pot"], save_fitted_strategies=cell["savefit"], overwrite_fitted_strategies=overwrite and cell["savefit"])
        except est.Crash:
            crashed = True
        registry = {"strategies": sorted(results.strategy_names), "datasets": sorted(results.dataset_names)}
        loaded = None
        if not crashed:
            try:
                loaded = sorted((r.strategy_name, r.dataset_name, [int(i) for i in r.index], [float(v) for v in r.y_pred]) for r in results.load_predictions(cv_fold=0, train_or_test="test"))
                loaded = [list(x) for x in loaded]
            except Exception as e:  # noqa
                loaded = "error:%s" % type(e).__name__
        return {"crashed": crashed, "fits": est.STATE["fits"], "predicts": est.STATE["predicts"], "registry": registry, "loaded": loaded}

    def _resume(self, W, inp, cell):
        root = tempfile.mkdtemp(prefix="vf_c19_")
        try:
            ref = os.path.join(root, "ref")
            run = os.path.join(root, "run")
            os.makedirs(ref)
            os.makedirs(run)
            out = {}
            out["ref"] = self._run(W, ref, cell)
            out["ref_store"] = self._store(ref)
            total_calls = out["ref"]["fits"] + out["ref"]["predicts"]
            out["total_calls"] = total_calls
            K = inp["K"]
            r1 = self._run(W, run, cell, K=K)
            out["run1"] = r1
            before = self._stat(run)
            out["store1"] = sorted(before)
            r2 = self._run(W, run, cell)
            out["run2"] = r2
            after = self._stat(run)
            out["untouched"] = all(after.get(k) == v for k, v in before.items())
            out["store2"] = self._store(run)
            # which (strategy, dataset, fold) iterations were complete after run 1
            need = lambda s, d, f: [os.path.join(s, d, "%s_test_%d.csv" % (s, f))] + ([os.path.join(s, d, "%s_train_%d.csv" % (s, f))] if cell["pot"] else []) + ([os.path.join(s, d, "%s_train_%d.pickle" % (s, f))] if cell["savefit"] else [])  # noqa
            missing = 0
            for s in ("s1", S2_DOTTED):
                for d in ("dsA", "dsB"):
                    for f in (0, 1):
                        if not all(p in before for p in need(s, d, f)):
                            missing += 1
            out["missing_after_run1"] = missing
            out["run3"] = self._run(W, run, cell)
            out["run4"] = self._run(W, run, cell, overwrite=True)
            out["store4"] = self._store(run)
            return out
        finally:
            shutil.rmtree(root, ignore_errors=True)

    def _fitonly(self, W, inp):
        """Orchestrator.fit: fit and save every strategy per fold; crash at K; resume; overwrite"""
        orch = W.load(ORCH)
        res = W.load("sktime.benchmarking.results")
        tasks = W.load("sktime.benchmarking.tasks")
        strat = W.load("sktime.benchmarking.strategies")
        data = W.load("sktime.benchmarking.data")
        import warnings

        root = tempfile.mkdtemp(prefix="vf_c19_")
        try:
            def run(K=None, overwrite=False):
                with warnings.catch_warnings():
                    warnings.simplefilter("ignore")
                    results = res.HDDResults(root)
                o = orch.Orchestrator([tasks.TSRTask(target="target")], [data.RAMDataset(self._data(W), "dsA")], [strat.TSRStrategy(est.CountingRegressor(), name="s1")], self._mk(W, "kfold"), results)
                est.STATE.update(n=0, K=K, fits=0, predicts=0, log=[])
                r = {"crashed": False, "raised": None}
                try:
                    o.fit(overwrite_fitted_strategies=overwrite)
                except est.Crash:
                    r["crashed"] = True
                except Exception as e:  # noqa
                    r["raised"] = type(e).__name__
                r["fits"] = est.STATE["fits"]
                r["files"] = sorted(self._store(root))
                return r

            out = {"run1": run(K=inp["K"])}
            before = self._stat(root)
            out["run2"] = run()
            after = self._stat(root)
            out["untouched"] = all(after.get(k) == v for k, v in before.items())
            out["run3"] = run()
            out["run4"] = run(overwrite=True)
            return out
        finally:
            shutil.rmtree(root, ignore_errors=True)

    def _ram(self, W):
        orch = W.load(ORCH)
        res = W.load("sktime.benchmarking.results")
        tasks = W.load("sktime.benchmarking.tasks")
        strat = W.load("sktime.benchmarking.strategies")
        data = W.load("sktime.benchmarking.data")
        results = res.RAMResults()
        df = self._data(W)
        est.STATE.update(n=0, K=None, fits=0, predicts=0, log=[])
        o = orch.Orchestrator([tasks.TSRTask(target="target")], [data.RAMDataset(df, "ds")], [strat.TSRStrategy(est.CountingRegressor(), name="st")], self._mk(W, "kfold"), results)
        o.fit_predict(predict_on_train=True, save_fitted_strategies=False)
        out = {"fits": est.STATE["fits"], "recs": []}
        for fold in (0, 1):
            for tt in ("train", "test"):
                for r in results.load_predictions(cv_fold=fold, train_or_test=tt):
                    out["recs"].append([fold, tt, [int(i) for i in r.index], [float(v) for v in r.y_true], [float(v) for v in r.y_pred]])
        # (b) a seeded shuffled single split is the same fold for every strategy and dataset; the task names a strict
        #     subset of the columns as features (the first column of the frame is not a feature)
        split = W.load("sktime.series_as_features.model_selection._split")
        pd = W.pd
        df2 = pd.DataFrame({"noise": [float(50 - 7 * i) for i in range(6)], "dim_0": [float(1 + i) for i in range(6)], "target": [float(3 * i) for i in range(6)]})
        results2 = res.RAMResults()
        est.STATE.update(n=0, K=None, fits=0, predicts=0, log=[])
        cv2 = split.SingleSplit(test_size=2, train_size=3, random_state=7, shuffle=True)  # (explicit sizes that do not cover all six instances)
        # (the datasets are NOT given in alphabetical order and their tasks differ: each dataset keeps its own task)
        o2 = orch.Orchestrator([tasks.TSRTask(target="target", features=["dim_0"]), tasks.TSRTask(target="target", features=["noise"])],
                               [data.RAMDataset(df2, "dsB"), data.RAMDataset(df2, "dsA")],
                               [strat.TSRStrategy(est.CountingRegressor(slope=2.0), name="s1"), strat.TSRStrategy(est.CountingRegressor(slope=3.0), name="s2")], cv2, results2)
        o2.fit_predict(predict_on_train=False, save_fitted_strategies=False)
        # (c) default features (all columns but the target) keep the frame's own column order
        df3 = pd.DataFrame({"zeta": [float(1 + i) for i in range(6)], "alpha": [float(50 - 7 * i) for i in range(6)], "target": [float(3 * i) for i in range(6)]})
        df3.index = [3, 1, 5, 0, 2, 4]  # (a shuffled frame that was not re-indexed: folds and records go by position)
        results3 = res.RAMResults()
        est.STATE.update(n=0, K=None, fits=0, predicts=0, log=[])
        o3 = orch.Orchestrator([tasks.TSRTask(target="target")], [data.RAMDataset(df3, "dsC")], [strat.TSRStrategy(est.CountingRegressor(slope=2.0), name="s1")], self._mk(W, "kfold"), results3)
        o3.fit_predict(predict_on_train=False, save_fitted_strategies=False)
        out["default_features"] = sorted([int(f), [int(i) for i in r.index], [float(v) for v in r.y_pred]] for f in (0, 1) for r in results3.load_predictions(cv_fold=f, train_or_test="test"))
        out["default_features_true"] = sorted([int(f), [float(v) for v in r.y_true]] for f in (0, 1) for r in results3.load_predictions(cv_fold=f, train_or_test="test"))
        out["shuffled"] = sorted([r.strategy_name, r.dataset_name, [int(i) for i in r.index], [float(v) for v in r.y_true], [float(v) for v in r.y_pred]] for r in results2.load_predictions(cv_fold=0, train_or_test="test"))
        return out

    # ------------------------------------------------------------------
    def _honest(self, df_vals, train_idx, idx, slope=2.0):
        """prediction of a clone fitted on the fold's training rows, for the recorded rows"""
        x, _ = df_vals
        return [slope * x[i] + len(train_idx) + 100 * x[train_idx[0]] for i in idx]

    def oracle(self, P, inp, out, cell):
        kind = cell["kind"]
        x = [float(1 + i) for i in range(6)]
        t = [float(3 * i) for i in range(6)]
        if kind == "iteration":
            owp, pot, sf, owf = inp["overwrite_predictions"], inp["predict_on_train"], inp["save_fitted_strategies"], inp["overwrite_fitted_strategies"]
            tre, tee, fe = inp["train_exists"], inp["test_exists"], inp["fit_exists"]
            B = (lambda v: bool(v))  # flags are concrete on each path once the code has branched on them
            invalid = B(owf) and not B(sf)
            if out["raised"] is not None or invalid:
                P.check("invalid-flag-combination-rejected", out["raised"] == "ValueError" and invalid and out["fits"] == 0 and not [c for c in out["calls"] if c["op"] != "save"])
                return
            w_test = B(owp) or not B(tee)
            w_train = B(pot) and (B(owp) or not B(tre))
            w_fit = B(sf) and (B(owf) or not B(fe))
            skip = not (w_test or w_train or w_fit)
            P.check("skip-iff-nothing-missing-and-no-overwrite", (out["fits"] == 0) == skip)
            P.check("one-fit-per-executed-iteration", out["fits"] == (0 if skip else 1))
            ops = [c["op"] for c in out["calls"]]
            want = ([] if skip else (["fitted"] if w_fit else []) + (["pred:train"] if w_train else []) + (["pred:test"] if w_test else [])) + ["save"]
            P.check("writes-exactly-the-missing-or-overwritten-records", ops == want, {"ops": ops, "want": want})
            P.check("writes-exactly-the-missing-or-overwritten-records", out["predicts"] == (0 if skip else int(w_train) + int(w_test)))
            tr, te = ([1, 2, 4, 5], [0, 3]) if cell["cv"] == "presplit-interleaved" else ([0, 1, 2, 3], [4, 5])
            for c in out["calls"]:
                if c["op"].startswith("pred:"):
                    idx = tr if c["op"] == "pred:train" else te
                    P.check("stored-record-is-honest", c["index"] == idx and c["y_true"] == [t[i] for i in idx] and c["strategy"] == "st" and c["dataset"] == "ds" and c["cv_fold"] == 0)
                    P.check("stored-record-is-honest", c["y_pred"] == self._honest((x, t), tr, idx))
            return
        if kind == "merge":
            S1 = [n for n in ("s1", "s2") if inp["r1_" + n]]
            D1 = [n for n in ("dsA", "dsB") if inp["r1_d" + n[2:]]]
            S2 = [n for n in ("s1", "s2") if inp["r2_" + n]]
            D2 = [n for n in ("dsA", "dsB") if inp["r2_d" + n[2:]]]
            P.check("registry-equals-uninterrupted-run", out["r1"]["own"] == [S1, D1] and out["r1"]["master"] == [S1, D1], {"run": 1, "got": out["r1"]["own"]})
            want = [sorted(set(S1 + S2)), sorted(set(D1 + D2))]
            P.check("registry-equals-uninterrupted-run", out["r2"]["own"] == want, {"run": 2, "which": "results object", "got": out["r2"]["own"], "want": want})
            P.check("registry-equals-uninterrupted-run", out["r2"]["master"] == want, {"run": 2, "which": "master file", "got": out["r2"]["master"], "want": want})
            files = sorted({os.path.join(s_, d_, "%s_test_%d.csv" % (s_, f)) for (SS, DD) in ((S1, D1), (S2, D2)) for s_ in SS for d_ in DD for f in (0, 1)})
            P.check("final-store-equals-uninterrupted-run", out["r2"]["files"] == files, {"files": out["r2"]["files"], "want": files})
            return
        if kind == "fitonly":
            K = inp["K"]
            files = [os.path.join("s1", "dsA", "s1_train_%d.pickle" % f) for f in (0, 1)]
            P.check("fit-only-run-saves-every-fitted-strategy", all(out[r]["raised"] is None for r in ("run1", "run2", "run3", "run4")), {"raised": [out[r]["raised"] for r in ("run1", "run2", "run3", "run4")]})
            if any(out[r]["raised"] is not None for r in ("run1", "run2", "run3", "run4")):
                return
            P.check("fit-only-run-saves-every-fitted-strategy", out["run1"]["crashed"] == bool(K <= 2) and out["run2"]["files"] == files)
            done1 = len(out["run1"]["files"])
            P.check("resume-produces-exactly-the-missing", out["run2"]["fits"] == 2 - done1 and out["untouched"])
            P.check("third-run-performs-no-fits", out["run3"]["fits"] == 0)
            P.check("overwrite-recomputes-everything", out["run4"]["fits"] == 2 and out["run4"]["files"] == files)
            return
        if kind == "ram":
            P.check("ram-results-read-back", out["fits"] == 2 and len(out["recs"]) == 4)
            folds = {0: ([3, 4, 5], [0, 1, 2]), 1: ([0, 1, 2], [3, 4, 5])}
            for fold, tt, idx, yt, yp in out["recs"]:
                tr, te = folds[fold]
                want_idx = tr if tt == "train" else te
                P.check("ram-results-read-back", idx == want_idx and yt == [t[i] for i in want_idx] and yp == self._honest((x, t), tr, want_idx))
            folds3 = {0: ([3, 4, 5], [0, 1, 2]), 1: ([0, 1, 2], [3, 4, 5])}
            P.check("stored-record-is-honest", len(out["default_features"]) == 2, {"what": "default features: one record per fold"})
            for fold, yt3 in out.get("default_features_true", []):
                P.check("stored-record-is-honest", yt3 == [float(3 * i) for i in folds3[fold][1]], {"what": "true values of the fold's own instances (frame with permuted integer row labels)", "y_true": yt3})
            for fold, idx, yp in out["default_features"]:
                tr3, te3 = folds3[fold]
                P.check("stored-record-is-honest", idx == te3 and yp == self._honest((x, t), tr3, te3), {"what": "default features keep the frame's column order (first column = first feature)", "y_pred": yp})
            from sklearn.model_selection import train_test_split

            tr2, te2 = train_test_split(list(range(6)), test_size=2, train_size=3, random_state=7, shuffle=True)
            P.check("stored-record-is-honest", [r[:2] for r in out["shuffled"]] == [["s1", "dsA"], ["s1", "dsB"], ["s2", "dsA"], ["s2", "dsB"]], {"what": "one record per strategy and dataset"})
            for sname, dname, idx, yt, yp in out["shuffled"]:
                slope = 2.0 if sname == "s1" else 3.0
                P.check("stored-record-is-honest", idx == list(te2), {"what": "the seeded fold is the same for every strategy and dataset", "strategy": sname, "dataset": dname, "index": idx, "want": list(te2)})
                xf = x if dname == "dsB" else [float(50 - 7 * i) for i in range(6)]  # dsB's task names dim_0, dsA's task names noise
                P.check("stored-record-is-honest", yt == [t[i] for i in idx] and yp == [slope * xf[i] + len(tr2) + 100 * xf[tr2[0]] for i in idx], {"what": "prediction from the dataset's own task's feature columns", "strategy": sname, "dataset": dname, "y_pred": yp})
            return
        # resume
        K = inp["K"]
        total = out["total_calls"]
        per_iter_preds = 2 if cell["pot"] else 1
        P.check("final-store-equals-uninterrupted-run", out["ref"]["fits"] == 8 and out["ref"]["predicts"] == 8 * per_iter_preds and not out["ref"]["crashed"])
        if cell["savefit"]:
            pickles = sorted(k for k in (out["ref_store"] if isinstance(out["ref_store"], dict) else dict.fromkeys(out["ref_store"])) if str(k).endswith(".pickle"))
            want = sorted(os.path.join(s_, d_, "%s_train_%d.pickle" % (s_, f_)) for s_ in ("s1", S2_DOTTED) for d_ in ("dsA", "dsB") for f_ in (0, 1))
            P.check("final-store-equals-uninterrupted-run", pickles == want, {"what": "one saved fitted strategy per strategy, dataset and fold", "found": pickles[:8]})
        crashed = out["run1"]["crashed"]
        P.check("resume-produces-exactly-the-missing", crashed == bool(K <= total))
        P.check("resume-produces-exactly-the-missing", not out["run2"]["crashed"] and out["run2"]["fits"] == out["missing_after_run1"], {"fits_run2": out["run2"]["fits"], "missing": out["missing_after_run1"]})
        P.check("resume-leaves-completed-records-untouched", out["untouched"])
        P.check("final-store-equals-uninterrupted-run", out["store2"] == out["ref_store"])
        P.check("registry-equals-uninterrupted-run", out["run2"]["registry"] == out["ref"]["registry"] and out["run2"]["loaded"] == out["ref"]["loaded"], {"registry": out["run2"]["registry"], "K": S(K) if not P.sym else None})
        P.check("third-run-performs-no-fits", out["run3"]["fits"] == 0 and out["run3"]["predicts"] == 0 and not out["run3"]["crashed"])
        P.check("registry-equals-uninterrupted-run", out["run3"]["loaded"] == out["ref"]["loaded"], {"run": 3})
        P.check("overwrite-recomputes-everything", out["run4"]["fits"] == 8 and out["run4"]["predicts"] == 8 * per_iter_preds and out["store4"] == out["ref_store"])
        # stored records are honest: test predictions of fold 0 equal a clone fitted on that fold
        ref_loaded = out["ref"]["loaded"]
        P.check("stored-record-is-honest", isinstance(ref_loaded, list) and len(ref_loaded) == 4)
        if isinstance(ref_loaded, list):
            for sname, dname, idx, yp in ref_loaded:
                seed = 0 if dname == "dsA" else 1
                xs = [float(1 + i + 10 * seed) for i in range(6)]
                slope = 2.0 if sname == "s1" else 2.5
                P.check("stored-record-is-honest", idx == [0, 1, 2] and yp == [slope * xs[i] + 3 + 100 * xs[3] for i in idx], {"strategy": sname, "dataset": dname, "y_pred": yp})

    def signature(self, label, inp, cell, detail=None):
        return "%s/%s" % (cell["kind"], label)

    def comparable(self, out, cell):
        return out


HARNESS = C19()
