"""C01 -- temporal CV splitters never leak the future and tile the series as documented."""
from ..runner import Harness
from ..hutil import L, S, fresh_ints, increasing

SPLIT = "sktime.forecasting.model_selection._split"


class C01(Harness):
    pid = "C01"
    labels = (
        "reject-iff-not-fit",
        "train-contiguous",
        "train-in-series",
        "cutoff-reported",
        "test-is-cutoff-plus-fh",
        "test-in-series",
        "no-leak",
        "window-length",
        "expanding-starts-at-0",
        "step",
        "first-cutoff",
        "last-cutoff",
        "n-splits",
        "tts-train",
        "tts-test",
    )
    stubs = ("sklearn.model_selection.train_test_split := recording stub (partition arithmetic of scikit-learn is library code)",)
    assumptions = (
        "window_length, step_length, initial_window >= 1; fh strictly increasing, out-of-sample (>= 1)",
        "SingleWindowSplitter: max(fh) <= n-1 (the class has no feasibility check; documented use)",
        "CutoffSplitter: cutoffs >= 0, distinct",
        "sliding splitter with initial_window: initial_window > window_length and start_with_window=True (otherwise ValueError by design)",
    )
    outside = ("series longer than the stated n", "for in-sample / mixed horizons (first step <= 0): which requests are refused, first and last cutoff, window length and the no-leak clause (the window necessarily overlaps the test positions)", "in-sample horizons for the single-window and cutoff splitters", "datetime / period indices")

    def bounds(self, tier):
        return {"window_step_initial_window": "1..n_max+3 (symbolic)", "n_max": 8 if tier == "quick" else 12, "fh_steps": [1, 2] if tier == "quick" else [1, 2, 3], "cutoffs": [1, 2] if tier == "quick" else [1, 2, 3]}

    def cells(self, tier):
        b = self.bounds(tier)
        out = []
        for kind in ("sliding", "expanding", "sliding_iw", "single", "single_nowl"):
            for k in b["fh_steps"]:
                out.append({"name": "%s-k%d" % (kind, k), "kind": kind, "K": k, "N": b["n_max"], "cost": k * (3 if kind.startswith("sliding") else 2)})
        # in-sample and mixed horizons (first step <= 0): only the clauses that still make sense are judged
        for kind in ("sliding_is", "expanding_is"):
            for k in b["fh_steps"][:2]:
                out.append({"name": "%s-k%d" % (kind, k), "kind": kind, "K": k, "N": b["n_max"], "cost": k * 3})
        for k in b["fh_steps"][:2]:
            for nc in b["cutoffs"]:
                out.append({"name": "cutoff-k%d-c%d" % (k, nc), "kind": "cutoff", "K": k, "NC": nc, "N": b["n_max"], "cost": k * nc})
        for kind in ("tts_rel", "tts_abs"):
            for k in b["fh_steps"]:
                out.append({"name": "%s-k%d" % (kind, k), "kind": kind, "K": k, "N": b["n_max"], "cost": 1})
        out.append({"name": "tts_size", "kind": "tts_size", "K": 0, "N": b["n_max"], "cost": 1})
        return out

    def overrides(self, kind, cell):
        if cell["kind"] == "tts_size":
            import types

            rec = []

            def tts(*series, **kw):
                rec.append((len(series), dict(kw)))
                return ["train", "test"] * len(series)

            if not hasattr(self, "_recs"):
                self._recs = {}
            self._recs[kind] = rec
            return {"sklearn.model_selection": types.SimpleNamespace(train_test_split=tts)}
        return None

    # ------------------------------------------------------------------ inputs
    def inputs(self, ctx, cell):
        kind, K, N = cell["kind"], cell["K"], cell["N"]
        n = ctx.fresh_int("n")
        ctx.assume((n >= 1) & (n <= N))
        inp = {"n": int(n)}
        nn = inp["n"]
        if kind == "tts_size":
            inp["test_size"] = ctx.fresh_int("test_size")
            inp["train_size"] = ctx.fresh_int("train_size")
            inp["withX"] = bool(ctx.fresh_bool("withX"))
            return inp
        fh = fresh_ints(ctx, "h", K)
        if kind.endswith("_is"):
            increasing(ctx, fh, lo=-(N + 1))
            ctx.assume(fh[0] <= 0)
        else:
            increasing(ctx, fh, lo=1)
        inp["fh"] = fh
        if kind in ("sliding", "expanding", "sliding_iw", "sliding_is", "expanding_is"):
            inp["wl"] = ctx.fresh_int("wl")
            inp["sl"] = ctx.fresh_int("sl")
            # upper bounds only keep the exploration finite when a (mutated) feasibility check lets an oversized
            # window through; on the unchanged code every value above n is rejected on one symbolic path
            ctx.assume((inp["wl"] >= 1) & (inp["wl"] <= N + 3))
            ctx.assume((inp["sl"] >= 1) & (inp["sl"] <= N + 3))
            if kind == "sliding_iw":
                inp["iw"] = ctx.fresh_int("iw")
                ctx.assume((inp["iw"] > inp["wl"]) & (inp["iw"] <= N + 4))
                inp["sww"] = True
            else:
                inp["sww"] = bool(ctx.fresh_bool("sww"))
        elif kind == "single":
            inp["wl"] = ctx.fresh_int("wl")
            ctx.assume((inp["wl"] >= 1) & (inp["wl"] <= nn + 2))
            ctx.assume(fh[-1] <= nn - 1)
        elif kind == "single_nowl":
            ctx.assume(fh[-1] <= nn - 1)
        elif kind == "cutoff":
            cs = fresh_ints(ctx, "c", cell["NC"])
            for c in cs:
                ctx.assume(c >= 0)
            for i, a in enumerate(cs):
                for b in cs[i + 1 :]:
                    ctx.assume(a != b)
            inp["cutoffs"] = cs
            inp["wl"] = ctx.fresh_int("wl")
            ctx.assume((inp["wl"] >= 1) & (inp["wl"] <= nn + 2))
        elif kind in ("tts_rel", "tts_abs"):
            inp["s0"] = ctx.fresh_int("s0")
            inp["withX"] = bool(ctx.fresh_bool("withX"))
            inp["range_index"] = bool(ctx.fresh_bool("range_index"))
            ctx.assume(fh[-1] <= nn - 1)
            if kind == "tts_abs":
                # absolute horizon = labels inside the series: s0 + n - 1 - (something); keep as offsets from s0
                for h in fh:
                    ctx.assume(h <= nn - 1)
                # the horizon may end before the end of the series (the tail belongs to neither part)
                t = ctx.fresh_int("tail")
                ctx.assume((t >= 0) & (t <= 2) & (fh[-1] + t <= nn - 1))
                inp["tail"] = int(t)
        return inp

    # ------------------------------------------------------------------ scenario (either world)
    def scenario(self, W, inp, cell):
        np, pd = W.np, W.pd
        sp = W.load(SPLIT)
        kind, n = cell["kind"], inp["n"]
        if kind.startswith("tts"):
            return self._tts(W, sp, inp, cell)
        y = pd.RangeIndex(n)
        fh = np.array(inp["fh"])
        if kind in ("sliding", "sliding_is"):
            cv = sp.SlidingWindowSplitter(fh=fh, window_length=inp["wl"], step_length=inp["sl"], start_with_window=inp["sww"])
        elif kind == "sliding_iw":
            cv = sp.SlidingWindowSplitter(fh=fh, window_length=inp["wl"], step_length=inp["sl"], initial_window=inp["iw"], start_with_window=True)
        elif kind in ("expanding", "expanding_is"):
            cv = sp.ExpandingWindowSplitter(fh=fh, initial_window=inp["wl"], step_length=inp["sl"], start_with_window=inp["sww"])
        elif kind == "single":
            cv = sp.SingleWindowSplitter(fh=fh, window_length=inp["wl"])
        elif kind == "single_nowl":
            cv = sp.SingleWindowSplitter(fh=fh)
        elif kind == "cutoff":
            cv = sp.CutoffSplitter(np.array(inp["cutoffs"]), fh=fh, window_length=inp["wl"])
        # the splitter object is not fresh: it has been asked about another, longer series before
        try:
            cv.get_n_splits(pd.RangeIndex(n + 2))
            cv.get_cutoffs(pd.RangeIndex(n + 2))
        except ValueError:
            pass
        try:
            splits = [(L(tr), L(te)) for tr, te in cv.split(y)]
        except ValueError:
            return {"rejected": True}
        cutoffs = L(cv.get_cutoffs(y))
        return {"rejected": False, "splits": [[a, b] for a, b in splits], "cutoffs": cutoffs, "n_splits": S(cv.get_n_splits(y))}

    def _tts(self, W, sp, inp, cell):
        np, pd = W.np, W.pd
        kind, n = cell["kind"], inp["n"]
        if kind == "tts_size":
            rec = self._recs[W.kind]
            del rec[:]
            y = pd.Series([float(i) for i in range(n)])
            X = pd.DataFrame({"a": [float(i) for i in range(n)]}) if inp["withX"] else None
            r = sp.temporal_train_test_split(y, X, test_size=inp["test_size"], train_size=inp["train_size"])
            nser, kw = rec[0]
            return {"ncalls": len(rec), "nseries": nser, "shuffle": kw.get("shuffle"), "stratify_none": kw.get("stratify") is None, "test_size": kw.get("test_size"), "train_size": kw.get("train_size"), "nret": len(r)}
        s0 = inp["s0"]
        idx = pd.RangeIndex(s0, s0 + n) if inp["range_index"] else pd.Index([s0 + i for i in range(n)])
        y = pd.Series([float(i) for i in range(n)], index=idx)
        X = pd.DataFrame({"a": [float(10 + i) for i in range(n)]}, index=idx) if inp["withX"] else None
        FH = W.load("sktime.forecasting.base").ForecastingHorizon
        if kind == "tts_rel":
            fh = FH(np.array(inp["fh"]), is_relative=True)
        else:
            # absolute labels: s0 + n - 1 - (hK - h) ... use labels s0 + n - 1 - h_K + h_j  (inside the series, increasing)
            labs = [s0 + n - 1 - inp.get("tail", 0) - inp["fh"][-1] + h for h in inp["fh"]]
            fh = FH(np.array(labs), is_relative=False)
        try:
            r = sp.temporal_train_test_split(y, X, fh=fh)
        except ValueError:
            return {"rejected": True}
        out = {"rejected": False, "ytrain_idx": L(r[0].index), "ytrain": L(r[0].values), "ytest_idx": L(r[1].index), "ytest": L(r[1].values)}
        if X is not None:
            out["xtrain_idx"] = L(r[2].index)
            out["xtest_idx"] = L(r[3].index)
        return out

    # ------------------------------------------------------------------ oracle (either world)
    def oracle(self, P, inp, out, cell):
        kind, n = cell["kind"], inp["n"]
        if kind.startswith("tts"):
            return self._tts_oracle(P, inp, out, cell)
        if kind.endswith("_is"):
            return self._in_sample_oracle(P, inp, out, cell)
        fh = inp["fh"]
        K = len(fh)
        hK = fh[-1]
        wl = inp.get("wl")
        if kind in ("sliding", "expanding", "sliding_iw"):
            fits = wl + hK <= n
            if kind == "sliding_iw":
                fits = fits & (inp["iw"] + hK <= n)
        elif kind == "cutoff":
            cs = inp["cutoffs"]
            fits = True
            for c in cs:
                fits = fits & (c + hK <= n - 1)
        else:
            fits = True
        if out["rejected"]:
            P.check("reject-iff-not-fit", ~fits if P.sym and not isinstance(fits, bool) else (not fits))
            return
        P.check("reject-iff-not-fit", fits)
        splits = out["splits"]
        cuts = out["cutoffs"]
        P.check("n-splits", (len(cuts) == len(splits)) and (out["n_splits"] == len(splits)))
        if len(cuts) != len(splits):
            return
        sww = inp.get("sww", True)
        sl = inp.get("sl")
        prev = None
        if kind == "cutoff":
            P.check("n-splits", len(splits) == len(inp["cutoffs"]))
        for i, (tr, te) in enumerate(splits):
            if len(tr):
                c = tr[-1]
                for a, b in zip(tr, tr[1:]):
                    P.check("train-contiguous", b == a + 1)
                P.check("train-in-series", (tr[0] >= 0) & (c < n))
            else:
                c = -1
                P.check("train-in-series", (not sww) and kind in ("sliding", "expanding"))
            P.eq("cutoff-reported", cuts[i], c)
            P.check("test-is-cutoff-plus-fh", len(te) == K)
            if len(te) != K:
                continue
            for h, t in zip(fh, te):
                P.eq("test-is-cutoff-plus-fh", t, c + h)
                P.check("test-in-series", (t >= 0) & (t <= n - 1))
            P.check("no-leak", c < te[0])
            if kind == "sliding":
                P.check("window-length", (len(tr) == wl) if sww else ((len(tr) == wl) | ((len(tr) == c + 1) & (c + 1 < wl))))
            elif kind == "sliding_iw":
                P.check("window-length", len(tr) == (inp["iw"] if i == 0 else wl))
                if i == 0 and len(tr):
                    P.check("expanding-starts-at-0", tr[0] == 0)
            elif kind == "expanding":
                if len(tr):
                    P.check("expanding-starts-at-0", tr[0] == 0)
            elif kind == "single":
                P.check("window-length", (len(tr) == wl) | ((len(tr) == c + 1) & (c + 1 < wl)))
            elif kind == "single_nowl":
                P.check("expanding-starts-at-0", len(tr) > 0 and tr[0] == 0)
            elif kind == "cutoff":
                P.check("window-length", (len(tr) == wl) | ((len(tr) == c + 1) & (c + 1 < wl)))
            if kind in ("sliding", "expanding", "sliding_iw"):
                if prev is not None:
                    P.eq("step", c, prev + sl)
                else:
                    if kind == "sliding_iw":
                        P.eq("first-cutoff", c, inp["iw"] - 1)
                    else:
                        P.eq("first-cutoff", c, (wl - 1) if sww else -1)
            prev = c
        if kind in ("sliding", "expanding", "sliding_iw"):
            P.check("last-cutoff", len(splits) > 0)
            if prev is not None:
                P.check("last-cutoff", prev + sl + hK > n - 1)
        elif kind in ("single", "single_nowl"):
            P.check("n-splits", len(splits) == 1)
            if prev is not None:
                P.eq("last-cutoff", prev, n - 1 - hK)
        elif kind == "cutoff":
            # cutoffs are yielded sorted; every requested cutoff appears once
            for a, b in zip(cuts, cuts[1:]):
                P.check("step", a < b)
            for c in inp["cutoffs"]:
                hit = False
                for d in cuts:
                    hit = (d == c) | hit
                P.check("cutoff-reported", hit)

    def _in_sample_oracle(self, P, inp, out, cell):
        """Horizons whose first step is <= 0: the training window necessarily overlaps the test positions, and which
        windows the library refuses is not documented, so only these clauses are judged on every accepted request:
        one test position per step, each exactly cutoff + step and inside the series, contiguous training windows in
        the series, reported cutoffs / number of splits equal to the yielded ones, cutoffs advancing by the step."""
        n, fh, K, sl = inp["n"], inp["fh"], len(inp["fh"]), inp["sl"]
        if out["rejected"]:
            return
        splits, cuts = out["splits"], out["cutoffs"]
        P.check("n-splits", (len(cuts) == len(splits)) and (out["n_splits"] == len(splits)))
        if len(cuts) != len(splits):
            return
        prev = None
        for i, (tr, te) in enumerate(splits):
            if len(tr):
                c = tr[-1]
                for a, b in zip(tr, tr[1:]):
                    P.check("train-contiguous", b == a + 1)
                P.check("train-in-series", (tr[0] >= 0) & (c < n))
                if cell["kind"] == "expanding_is":
                    P.check("expanding-starts-at-0", tr[0] == 0)
            else:
                c = cuts[i]
            P.eq("cutoff-reported", cuts[i], c)
            P.check("test-is-cutoff-plus-fh", len(te) == K)
            if len(te) != K:
                continue
            for h, t in zip(fh, te):
                P.eq("test-is-cutoff-plus-fh", t, c + h)
                P.check("test-in-series", (t >= 0) & (t <= n - 1))
            if prev is not None:
                P.eq("step", c, prev + sl)
            prev = c

    def _tts_oracle(self, P, inp, out, cell):
        kind, n = cell["kind"], inp["n"]
        if kind == "tts_size":
            P.check("tts-train", out["ncalls"] == 1 and out["shuffle"] is False and out["stratify_none"] and out["nseries"] == (2 if inp["withX"] else 1) and out["nret"] == 2 * out["nseries"])
            P.eq("tts-test", out["test_size"], inp["test_size"])
            P.eq("tts-test", out["train_size"], inp["train_size"])
            return
        fh = inp["fh"]
        hK = fh[-1]
        s0 = inp["s0"]
        if kind == "tts_rel":
            fits = hK <= n
            if out["rejected"]:
                P.check("reject-iff-not-fit", False)
                return
            # relative: the last max(fh) points are held out, test labels are cutoff + fh
            if not P.check("reject-iff-not-fit", fits):
                return
            ntrain = n - hK
            cutoff = s0 + ntrain - 1
            want_test = [cutoff + h for h in fh]
        else:
            if out["rejected"]:
                P.check("reject-iff-not-fit", False)
                return
            tail = inp.get("tail", 0)
            want_test = [s0 + n - 1 - tail - hK + h for h in fh]
            ntrain = (n - 1 - tail - hK + fh[0])
        P.check("tts-train", len(out["ytrain_idx"]) == ntrain)
        if P.sym is False or isinstance(ntrain, int):
            pass
        for i, lab in enumerate(out["ytrain_idx"]):
            P.eq("tts-train", lab, s0 + i)
            P.eq("tts-train", out["ytrain"][i], i)
        P.check("tts-test", len(out["ytest_idx"]) == len(fh))
        if len(out["ytest_idx"]) == len(fh):
            for lab, w, v in zip(out["ytest_idx"], want_test, out["ytest"]):
                P.eq("tts-test", lab, w)
                P.eq("tts-test", v, w - s0)
            if out["ytrain_idx"]:
                P.check("no-leak", out["ytrain_idx"][-1] < out["ytest_idx"][0])
        if "xtrain_idx" in out:
            P.check("tts-train", len(out["xtrain_idx"]) == len(out["ytrain_idx"]))
            for a, b in zip(out["xtrain_idx"], out["ytrain_idx"]):
                P.eq("tts-train", a, b)
            # X_test covers every label from the first held-out point to the last test label
            if out["xtest_idx"]:
                P.eq("tts-test", out["xtest_idx"][-1], want_test[-1])
                for a, b in zip(out["xtest_idx"], out["xtest_idx"][1:]):
                    P.eq("tts-test", b, a + 1)

    def signature(self, label, inp, cell):
        return "%s/%s" % (cell["kind"], label)


HARNESS = C01()
