"""C16 -- fitted panel estimators treat instances independently and ignore the container (the part in reach)."""
import itertools
import warnings

from ..runner import Harness
from ..hutil import L, S, fresh_reals
from .. import worlds
from ..symx import is_sym
from . import c14 as _c14

PANEL = "sktime.transformations.panel"
KINDS = ["padding", "truncation", "paa", "tabularizer", "concatenator", "interval", "sliding", "features", "row", "column-ensemble"]


def rows_of(r):
    """result (nested frame / flat frame / array) -> list of per-instance value trees"""
    if hasattr(r, "iloc"):
        out = []
        for i in range(r.shape[0]):
            row = []
            for j in range(r.shape[1]):
                c = r.iloc[i, j]
                row.append([S(v) for v in list(c)] if hasattr(c, "__len__") else S(c))
            out.append(row)
        return out
    return [[S(v) for v in row] for row in r.tolist()]


class C16(Harness):
    pid = "C16"
    labels = ("row-count-and-order", "permutation-equivariant", "single-instance-equals-batch-row", "container-independent")
    stubs = ("as C14: symbolic cell values in token arrays on the real numpy / pandas", "ColumnEnsembleClassifier members := stub classifiers whose predict_proba is an uninterpreted function of the instance's values")
    assumptions = (
        "NOT APPLICABLE part (stated, not claimed): fitted classifiers / regressors (forests over scikit-learn's C trees, BOSS / cBOSS / TDE / MUSE dictionaries, numba kernels) cannot be encoded; only closed-form panel transformers and the column ensemble around stub members are covered",
    )
    outside = ("every estimator not listed under bounds.estimators",)
    max_validate_quick = 8

    def bounds(self, tier):
        return {"instances": "2..3", "series_length": "2..4", "permutations": "all", "estimators": KINDS}

    def cells(self, tier):
        return [{"name": k, "kind": k, "cost": 2} for k in KINDS]

    def make_world(self, kind, cell):
        return _c14.HARNESS.make_world(kind, {"kind": "x"})

    def inputs(self, ctx, cell):
        def choice(name, lo, hi):
            v = ctx.fresh_int(name)
            ctx.assume((v >= lo) & (v <= hi))
            return int(v)

        k = cell["kind"]
        ni = choice("ni", 2, 3)
        nc = 2 if k in ("concatenator", "tabularizer", "column-ensemble", "row") else 1  # (two columns: a batch of two instances is then "square")
        if k in ("padding", "truncation"):
            lens = [choice("len%d" % i, 2, 3) for i in range(ni)]
        else:
            Ln = choice("L", 4 if k == "features" else 2, 5 if k == "paa" else 4)
            lens = [Ln] * ni
        x = [[fresh_reals(ctx, "x%d_%d_" % (i, j), lens[i]) for j in range(nc)] for i in range(ni)]
        perm = choice("perm", 0, len(list(itertools.permutations(range(ni)))) - 1)
        m = choice("m", 1, 3 if k == "paa" else (1 if k == "column-ensemble" else 2))
        if k == "paa" and m > min(lens):
            ctx.assume(False)  # more frames than time points is (rightly) rejected
        return {"x": x, "perm": list(list(itertools.permutations(range(ni)))[perm]), "single": choice("single", 0, ni - 1), "m": m, "w": choice("w", 1, 1 if k == "column-ensemble" else 3)}

    def _build(self, W, k, inp, sym):
        import numpy as np

        if k == "padding":
            # pad_length=None: the length found at fit (longest training series) also applies to later, shorter batches
            return W.load(PANEL + ".padder").PaddingTransformer(pad_length=None if inp["m"] == 1 else 4, fill_value=0.5)
        if k == "truncation":
            return W.load(PANEL + ".truncation").TruncationTransformer(lower=2)
        if k == "paa":
            return W.load(PANEL + ".dictionary_based._paa").PAA(num_intervals=inp["m"])
        if k == "tabularizer":
            return W.load(PANEL + ".reduce").Tabularizer()
        if k == "concatenator":
            return W.load(PANEL + ".compose").ColumnConcatenator()
        if k == "interval":
            return W.load(PANEL + ".segment").IntervalSegmenter(intervals=1)
        if k == "sliding":
            return W.load(PANEL + ".segment").SlidingWindowSegmenter(window_length=inp["w"])
        if k == "features":
            slope = W.load("sktime.utils.slope_and_trend")._slope
            return W.load(PANEL + ".summarize._extract").RandomIntervalFeatureExtractor(n_intervals=2, features=[np.mean, slope], random_state=1)
        if k == "row":
            TB = W.load("sktime.transformations.base")._SeriesToSeriesTransformer

            class Tr(TB):
                def transform(self, Z, X=None):
                    a = np.empty(Z.shape, dtype=object if sym else float)
                    for idx in np.ndindex(Z.shape):
                        v = Z[idx]
                        a[idx] = v if (isinstance(v, float) and v != v) else W.uf("rowt", [v], "r>r")  # (a missing value stays missing)
                    return a

            return W.load(PANEL + ".compose").SeriesToSeriesRowTransformer(Tr())
        if k == "column-ensemble":
            from sklearn.base import BaseEstimator, ClassifierMixin

            class Clf(ClassifierMixin, BaseEstimator):
                def __init__(self, tag=0):
                    self.tag = tag

                def fit(self, X, y):
                    self.classes_ = np.unique(y)
                    return self

                def predict_proba(self, X):
                    rows = []
                    for i in range(X.shape[0]):
                        vals = [v for v in list(X.iloc[i, 0])]
                        p = W.uf("member%d_%d" % (self.tag, len(vals)), vals, "r" * len(vals) + ">r")
                        rows.append([p, 1 - p])
                    a = np.empty((len(rows), 2), dtype=object if sym else float)
                    for i, r in enumerate(rows):
                        a[i, 0], a[i, 1] = r
                    return a

            CE = W.load("sktime.classification.compose._column_ensemble").ColumnEnsembleClassifier
            return CE([("a", Clf(tag=1), [0]), ("b", Clf(tag=2), [1])])
        raise AssertionError(k)

    def scenario(self, W, inp, cell):
        import numpy as np

        warnings.simplefilter("ignore")
        self._curW = W
        k = cell["kind"]
        X, sym = _c14.HARNESS._nested(inp["x"])
        worlds.TOKEN_MODE[0] = sym
        try:
            t = self._build(W, k, inp, sym)
            ni = X.shape[0]
            if k == "column-ensemble":
                t.fit(X, np.array([0, 1] * ni)[:ni])
                apply = t.predict_proba
            else:
                t.fit(X)
                apply = t.transform
            out = {"full": rows_of(apply(X))}
            Xp = X.iloc[inp["perm"]].reset_index(drop=True)
            out["perm"] = rows_of(apply(Xp))
            Xs = X.iloc[[inp["single"]]].reset_index(drop=True)
            out["single"] = rows_of(apply(Xs))
            # a fresh fitted object that is first given one instance and then the whole batch
            t3 = self._build(W, k, inp, sym)
            if k == "column-ensemble":
                t3.fit(X, np.array([0, 1] * ni)[:ni])
                apply3 = t3.predict_proba
            else:
                t3.fit(X)
                apply3 = t3.transform
            apply3(Xs)
            lens_ = {len(c) for inst in inp["x"] for c in inst}
            if len(lens_) == 1 and min(lens_) >= 3 and k != "column-ensemble":
                # ... and, in between, a panel of shorter series
                Xshort, _ = _c14.HARNESS._nested([[c[:-1] for c in inst] for inst in inp["x"]])
                try:
                    apply3(Xshort)
                except Exception:  # noqa  (a transformer may refuse series shorter than those it was fitted on)
                    pass
            out["batch_after_single"] = rows_of(apply3(X))
            if k in ("padding", "truncation"):
                # the same panel whose cells carry 1-based time labels: values go by position, labels inside cells play no role
                import pandas as pd

                X1 = X.copy()
                for c in X1.columns:
                    X1[c] = [pd.Series(list(cell_), index=range(1, len(cell_) + 1), dtype=object if sym else float) for cell_ in X1[c]]
                out["one_based_cells"] = rows_of(apply(X1))
            if k == "column-ensemble":
                # the same container object, its instances re-ordered in place between two calls
                Xc = X.copy()
                first_call = rows_of(apply(Xc))
                for c_ in list(Xc.columns):
                    Xc[c_] = [Xc[c_].iloc[i] for i in inp["perm"]]
                out["inplace"] = {"first": first_call, "after": rows_of(apply(Xc))}
            if k == "row" and ni >= 2:
                # a primitive (one value per instance) column next to the series column, missing for the second instance:
                # what an instance's row shows for it does not depend on the instance stored before it
                import pandas as pd

                Xq = X.copy()
                Xq["prim"] = [1.5] + [float("nan")] + [2.5] * (ni - 2)
                try:
                    out["primitive"] = {"full": rows_of(apply(Xq)), "single": rows_of(apply(Xq.iloc[[1]].reset_index(drop=True))), "perm_keep": rows_of(apply(Xq.iloc[inp["perm"]]))}
                except Exception as e:  # noqa
                    if type(e).__module__.startswith("vf."):
                        raise
                    out["primitive"] = {"raised": "%s: %s" % (type(e).__name__, str(e)[:60])}
            if k == "column-ensemble":
                # the predicted labels (ties between the averaged class probabilities included)
                lab = lambda XX: [[S(v)] for v in list(t.predict(XX))]  # noqa: E731
                out["labels"] = {"full": lab(X), "perm": lab(Xp), "single": lab(Xs)}
            else:
                # a panel that mixes integer-typed cells (counts: the first instance) with real-valued ones: the row of
                # an instance does not depend on the dtype its companions force on the batch
                import pandas as pd

                Xm = X.copy()
                for c in Xm.columns:
                    col = list(Xm[c])
                    col[0] = pd.Series(np.array([1, 2, 4, 8, 16][: len(col[0])], dtype="int64"))
                    Xm[c] = col
                try:
                    out["mixed"] = {"full": rows_of(apply(Xm)), "single": rows_of(apply(Xm.iloc[[0]].reset_index(drop=True)))}
                except ValueError as e:
                    out["mixed"] = {"raised": str(e)[:80]}
            # the same selections with their original instance labels kept (what X.iloc[...] hands over)
            out["perm_keep"] = rows_of(apply(X.iloc[inp["perm"]]))
            out["single_keep"] = rows_of(apply(X.iloc[[inp["single"]]]))
            if k not in ("padding", "truncation", "column-ensemble"):
                a = np.empty((ni, X.shape[1], len(inp["x"][0][0])), dtype=object if sym else float)
                for i in range(ni):
                    for j in range(X.shape[1]):
                        for tt, v in enumerate(inp["x"][i][j]):
                            a[i, j, tt] = v
                out["array"] = rows_of(apply(a))
                out["array_F"] = rows_of(apply(np.asfortranarray(a)))  # the same 3-D panel in column-major memory order
                # the same data passed as a 3-D array at FIT time
                t2 = self._build(W, k, inp, sym)
                t2.fit(a)
                out["fit_on_array"] = rows_of(t2.transform(X))
                # ... and as a nested frame whose cells carry time labels that do not start at 0 (values go by position)
                import pandas as pd

                X4 = X.copy()
                for c in X4.columns:
                    X4[c] = [pd.Series(list(cell_), index=pd.RangeIndex(4, 4 + len(cell_)), dtype=object if sym else float) for cell_ in X4[c]]
                t4 = self._build(W, k, inp, sym)
                try:
                    t4.fit(X4)
                    out["fit_on_offset_cells"] = rows_of(t4.transform(X))
                except Exception as e:  # noqa
                    if type(e).__module__.startswith("vf."):
                        raise
                    out["fit_on_offset_cells"] = {"raised": "%s: %s" % (type(e).__name__, str(e)[:60])}
            return out
        finally:
            worlds.TOKEN_MODE[0] = False

    def _same(self, P, label, a, b, detail):
        if isinstance(a, list) and isinstance(b, list):
            P.check(label, len(a) == len(b), detail)
            for u, v in zip(a, b):
                self._same(P, label, u, v, detail)
            return
        P.eq(label, a, b, detail)

    def _same_nan(self, P, label, a, b, detail):
        if isinstance(a, list) and isinstance(b, list):
            P.check(label, len(a) == len(b), detail)
            for u, v in zip(a, b):
                self._same_nan(P, label, u, v, detail)
            return
        na, nb_ = isinstance(a, float) and a != a, isinstance(b, float) and b != b
        if na or nb_:
            P.check(label, na and nb_, detail)
            return
        P.eq(label, a, b, detail)

    def oracle(self, P, inp, out, cell):
        d = {"estimator": cell["kind"]}
        ni = len(inp["x"])
        full = out["full"]
        P.check("row-count-and-order", len(full) == ni and len(out["perm"]) == ni and len(out["single"]) == 1, d)
        if len(full) != ni or len(out["perm"]) != ni:
            return
        for r, src in enumerate(inp["perm"]):
            self._same(P, "permutation-equivariant", out["perm"][r], full[src], d)
        self._same(P, "single-instance-equals-batch-row", out["single"][0], full[inp["single"]], d)
        dk = dict(d, instance_labels="kept")
        P.check("row-count-and-order", len(out["perm_keep"]) == ni and len(out["single_keep"]) == 1, dk)
        for r, src in enumerate(inp["perm"]):
            if r < len(out["perm_keep"]):
                self._same(P, "permutation-equivariant", out["perm_keep"][r], full[src], dk)
        if out["single_keep"]:
            self._same(P, "single-instance-equals-batch-row", out["single_keep"][0], full[inp["single"]], dk)
        P.check("row-count-and-order", len(out["batch_after_single"]) == ni, dict(d, what="batch after a single-instance call"))
        self._same(P, "single-instance-equals-batch-row", out["batch_after_single"], full, dict(d, what="the whole batch transformed after a single-instance call on the same object"))
        if "inplace" in out:
            ip = out["inplace"]
            di = dict(d, what="the same container object, instances re-ordered in place between the calls")
            P.check("row-count-and-order", len(ip["after"]) == ni, di)
            self._same(P, "single-instance-equals-batch-row", ip["first"], full, di)
            for r, src in enumerate(inp["perm"]):
                if r < len(ip["after"]):
                    self._same(P, "permutation-equivariant", ip["after"][r], full[src], di)
        if "primitive" in out:
            pr = out["primitive"]
            dp_ = dict(d, what="primitive column missing for the second instance")
            if "raised" not in pr:  # (a transformer may refuse the mixed panel altogether)
                P.check("row-count-and-order", len(pr["full"]) == ni and len(pr["single"]) == 1, dp_)
                if len(pr["full"]) == ni and len(pr["single"]) == 1:
                    self._same_nan(P, "single-instance-equals-batch-row", pr["single"][0], pr["full"][1], dp_)
                    P.check("row-count-and-order", len(pr["perm_keep"]) == ni, dict(dp_, instance_labels="kept"))
                    for r_, src_ in enumerate(inp["perm"]):
                        if r_ < len(pr["perm_keep"]):
                            self._same_nan(P, "permutation-equivariant", pr["perm_keep"][r_], pr["full"][src_], dict(dp_, instance_labels="kept"))
        if "labels" in out:
            lb = out["labels"]
            P.check("row-count-and-order", len(lb["full"]) == ni and len(lb["perm"]) == ni and len(lb["single"]) == 1, dict(d, what="predict"))
            if len(lb["full"]) == ni and len(lb["perm"]) == ni and len(lb["single"]) == 1:
                for r, src in enumerate(inp["perm"]):
                    self._same(P, "permutation-equivariant", lb["perm"][r], lb["full"][src], dict(d, what="predict"))
                self._same(P, "single-instance-equals-batch-row", lb["single"][0], lb["full"][inp["single"]], dict(d, what="predict"))
        if "mixed" in out:
            mx = out["mixed"]
            dm = dict(d, what="panel mixing integer-typed and real-valued cells")
            P.check("single-instance-equals-batch-row", "raised" not in mx, dict(dm, raised=mx.get("raised")))
            if "raised" not in mx:
                P.check("row-count-and-order", len(mx["full"]) == ni and len(mx["single"]) == 1, dm)
                if len(mx["full"]) == ni and len(mx["single"]) == 1:
                    self._same(P, "single-instance-equals-batch-row", mx["single"][0], mx["full"][0], dm)
        if "one_based_cells" in out:
            self._same(P, "container-independent", out["one_based_cells"], full, dict(d, what="cells with 1-based time labels"))
        if "array" in out:
            self._same(P, "container-independent", out["array_F"], full, dict(d, memory_order="F"))
            self._same(P, "container-independent", out["array"], full, d)
            self._same(P, "container-independent", out["fit_on_array"], full, dict(d, at="fit"))
            if isinstance(out.get("fit_on_offset_cells"), dict):
                P.check("container-independent", False, dict(d, at="fit on cells labelled from 4", raised=out["fit_on_offset_cells"]["raised"]))
            elif "fit_on_offset_cells" in out:
                self._same(P, "container-independent", out["fit_on_offset_cells"], full, dict(d, at="fit on cells labelled from 4"))

    def signature(self, label, inp, cell, detail=None):
        return "%s/%s" % (cell["kind"], label)


HARNESS = C16()
