"""C06 -- forecasting metrics equal their published definitions and obey their laws."""
import math
import types
from fractions import Fraction

from ..runner import Harness
from ..hutil import L, S, fresh_ints, fresh_reals
from .. import msk, mnp, symx
from ..symx import is_sym

FUNCS = "sktime.performance_metrics.forecasting._functions"
EPS = Fraction(1, 2 ** 52)

METRICS = {
    "mean_absolute_error": dict(elem="abs", agg="mean"),
    "mean_squared_error": dict(elem="sq", agg="mean", sqrt=True),
    "median_absolute_error": dict(elem="abs", agg="median"),
    "median_squared_error": dict(elem="sq", agg="median", sqrt=True),
    "mean_absolute_percentage_error": dict(elem="apct", agg="mean", symm=True),
    "median_absolute_percentage_error": dict(elem="apct", agg="median", symm=True),
    "mean_squared_percentage_error": dict(elem="spct", agg="mean", symm=True, sqrt=True),
    "median_squared_percentage_error": dict(elem="spct", agg="median", symm=True, sqrt=True),
    "mean_relative_absolute_error": dict(elem="arel", agg="mean", bench=True),
    "median_relative_absolute_error": dict(elem="arel", agg="median", bench=True),
    "geometric_mean_relative_absolute_error": dict(elem="arel", agg="gmean", bench=True),
    "geometric_mean_relative_squared_error": dict(elem="srel", agg="gmean", bench=True, sqrt=True),
    "mean_asymmetric_error": dict(elem="asym", agg="mean"),
    "mean_absolute_scaled_error": dict(elem="abs", agg="mean", scaled=True),
    "median_absolute_scaled_error": dict(elem="abs", agg="median", scaled=True),
    "mean_squared_scaled_error": dict(elem="sq", agg="mean", scaled=True, sqrt=True),
    "median_squared_scaled_error": dict(elem="sq", agg="median", scaled=True, sqrt=True),
    "relative_loss": dict(elem="abs", agg="mean", bench=True, ratio=True),
    # the same ratio for a loss function that is not symmetric in (truth, forecast)
    "relative_loss[asymmetric-loss]": dict(elem="asym", agg="mean", bench=True, ratio=True, fn="relative_loss", relfn=True),
}


def vmax(a, b):
    if is_sym(a) or is_sym(b):
        return mnp._max1(a, b)
    return a if a >= b else b


def vmin(a, b):
    if is_sym(a) or is_sym(b):
        return mnp._min1(a, b)
    return a if a <= b else b


def vsqrt(x):
    if is_sym(x) or isinstance(x, Fraction):
        return symx.sym_sqrt(x)
    return math.sqrt(x)


def vlog(W, x):
    if W.kind == "sym":
        return symx.wrap(mnp.UF_LOG(symx.zreal(x)))
    return math.log(x)


def vexp(W, x):
    if W.kind == "sym":
        return symx.wrap(mnp.UF_EXP(symx.zreal(x)))
    return math.exp(x)


def elem(kind, y, p, b, o):
    d = y - p
    if kind == "abs":
        return abs(d)
    if kind == "sq":
        return d * d
    if kind in ("apct", "spct"):
        if o["symmetric"]:
            e = 2 * abs(d) / vmax(abs(y) + abs(p), EPS if is_sym(y) or is_sym(p) else float(EPS))
        else:
            e = d / vmax(abs(y), EPS if is_sym(y) else float(EPS))
        return abs(e) if kind == "apct" else e * e
    if kind in ("arel", "srel"):
        q = y - b
        eps = EPS if is_sym(q) else float(EPS)
        if bool(q >= 0) if not is_sym(q) else None:
            den = vmax(q, eps)
        elif not is_sym(q):
            den = vmin(q, -eps)
        else:
            den = mnp._where1(q >= 0, vmax(q, eps), vmin(q, -eps))
        e = d / den
        return abs(e) if kind == "arel" else e * e
    if kind == "asym":
        f = {"squared": lambda v: v * v, "absolute": abs}
        if is_sym(d) or is_sym(o["thr"]):
            return mnp._where1(d < o["thr"], f[o["left"]](d), f[o["right"]](d))
        return f[o["left"]](d) if d < o["thr"] else f[o["right"]](d)
    raise AssertionError(kind)


def wmean(es, ws):
    if ws is None:
        return sum(es) / len(es)
    return sum(e * w for e, w in zip(es, ws)) / sum(ws)


def ordered(es):
    """indices of es in ascending order (python comparisons: forks in the symbolic world)"""
    order = []
    for i, v in enumerate(es):
        j = len(order)
        while j > 0 and bool(es[order[j - 1]] > v):
            j -= 1
        order.insert(j, i)
    return order


def wmedian(es, ws):
    order = ordered(es)
    n = len(es)
    if ws is None:
        if n % 2:
            return es[order[n // 2]]
        return (es[order[n // 2 - 1]] + es[order[n // 2]]) / 2
    tot = sum(ws)
    cum = 0
    for i in order:
        cum = cum + ws[i]
        if bool(cum >= tot / 2):
            return es[i]
    return es[order[-1]]


def wgmean(W, es, ws):
    eps = EPS if W.kind == "sym" else float(EPS)
    xs = []
    for e in es:
        if is_sym(e):
            xs.append(mnp._where1(e == 0, eps, e))
        else:
            xs.append(eps if e == 0 else e)
    logs = [vlog(W, x) for x in xs]
    return vexp(W, wmean(logs, ws))


def aggregate(W, agg, es, ws):
    if agg == "mean":
        return wmean(es, ws)
    if agg == "median":
        return wmedian(es, ws)
    return wgmean(W, es, ws)


class C06(Harness):
    pid = "C06"
    labels = ("formula", "raw-shape", "nonneg", "perfect-zero", "smape-symmetric", "smape-bounded", "scale-invariant", "class-equals-function", "class-callable", "gmean-floor")
    stubs = (
        "sklearn.metrics._regression._check_reg_targets, check_consistent_length, mean_absolute_error, mean_squared_error(squared=), median_absolute_error, "
        "sklearn.utils.stats._weighted_percentile (weighted lower median, 'inverted_cdf'), scipy.stats.gmean := contract models (vf.msk) in the symbolic world; "
        "the installed scikit-learn 1.7 / scipy in the concrete world (with a signature adapter for _check_reg_targets and the removed `squared` argument)",
        "np.log / np.exp := uninterpreted functions (geometric means); ground axiom exp(log(EPS)) = EPS for the floor law only",
        "sqrt(x) := fresh s >= 0 with s*s = x",
    )
    assumptions = ("horizon weights and multioutput weights are positive reals", "all inputs finite reals (no NaN/inf)", "EPS = 2**-52 exactly")
    outside = ("float rounding / overflow", "more horizon points or outputs than listed", "pandas index checks of y_train (arrays are passed)")
    prove_timeout_ms = 120000
    cell_timeout = {"quick": 400, "thorough": 2400}

    def bounds(self, tier):
        q = tier == "quick"
        return {
            "horizon_points_mean_type": 3 if q else 4,
            "horizon_points_median_type": 3,
            "outputs": 2,
            "two_outputs_max_points": 2 if q else 3,
            "train_points_max": 4,
            "sp": [1, 2],
        }

    def cells(self, tier):
        out = []
        for name, spec in METRICS.items():
            med = spec["agg"] == "median"
            out.append({"name": "fn-" + name, "kind": "fn", "metric": name, "cost": 6 if med else 2})
        out.append({"name": "laws-nonneg-perfect", "kind": "laws", "cost": 3})
        out.append({"name": "laws-smape", "kind": "smape", "cost": 3})
        out.append({"name": "laws-scale", "kind": "scale", "cost": 2})
        out.append({"name": "laws-gmean-floor", "kind": "gmfloor", "cost": 1})
        out.append({"name": "classes", "kind": "classes", "cost": 2})
        return out

    def overrides(self, kind, cell):
        if kind == "sym":
            return {
                "sklearn.metrics._regression": types.SimpleNamespace(_check_reg_targets=msk._check_reg_targets),
                "sklearn.utils.validation": types.SimpleNamespace(check_consistent_length=msk.check_consistent_length, check_is_fitted=None),
                "sklearn.utils.stats": types.SimpleNamespace(_weighted_percentile=msk._weighted_percentile),
                "sklearn.metrics": types.SimpleNamespace(mean_absolute_error=msk.mean_absolute_error, mean_squared_error=msk.mean_squared_error, median_absolute_error=msk.median_absolute_error),
                "scipy.stats": types.SimpleNamespace(gmean=msk.gmean),
            }
        import sklearn.metrics as skm
        from sklearn.metrics._regression import _check_reg_targets as crt

        def crt_old(y_true, y_pred, multioutput, dtype="numeric"):
            r = crt(y_true, y_pred, None, multioutput)
            return r[0], r[1], r[2], r[-1]

        def mse(y_true, y_pred, sample_weight=None, multioutput="uniform_average", squared=True):
            if squared:
                return skm.mean_squared_error(y_true, y_pred, sample_weight=sample_weight, multioutput=multioutput)
            return skm.root_mean_squared_error(y_true, y_pred, sample_weight=sample_weight, multioutput=multioutput)

        return {
            "sklearn.metrics._regression": types.SimpleNamespace(_check_reg_targets=crt_old),
            "sklearn.metrics": types.SimpleNamespace(mean_absolute_error=skm.mean_absolute_error, mean_squared_error=mse, median_absolute_error=skm.median_absolute_error),
        }

    # ------------------------------------------------------------------
    def inputs(self, ctx, cell):
        tier_q = self._tier == "quick"
        kind = cell["kind"]
        if kind == "fn":
            spec = METRICS[cell["metric"]]
            med = spec["agg"] == "median"
            Tmax = 3 if (tier_q or med) else 4
            T = ctx.fresh_int("T")
            m = ctx.fresh_int("m")
            ctx.assume((T >= 1) & (T <= Tmax) & (m >= 1) & (m <= 2))
            T, m = int(T), int(m)
            if m == 2 and T > (2 if tier_q else 3):
                ctx.assume(False)
            if m == 2 and med and T > 2:
                ctx.assume(False)
            if med and spec.get("scaled") and tier_q and (T > 2 or (m == 2 and T > 1)):
                ctx.assume(False)
            if med and spec.get("scaled") and not tier_q and m == 2 and T > 2:
                ctx.assume(False)
        elif kind == "scale":
            # symbolic scale factor at the smallest size; concrete factors (2, 1/3) at the larger size
            symc = bool(ctx.fresh_bool("symbolic_c"))
            T, m = ((1, 1) if symc else (2, 1))
            spec = {}
        else:
            T, m = (2, 1)
            spec = {}
        inp = {"T": T, "m": m}
        # count data: an integer-typed truth with real-valued forecasts (for the metric whose error is assembled piecewise)
        int_truth = kind == "fn" and spec["elem"] == "asym" and bool(ctx.fresh_bool("int_truth"))
        inp["yt"] = [(fresh_ints if int_truth else fresh_reals)(ctx, "t%d_" % j, T) for j in range(m)]
        inp["yp"] = [fresh_reals(ctx, "p%d_" % j, T) for j in range(m)]
        if kind == "fn":
            if bool(ctx.fresh_bool("weighted")):
                ws = fresh_reals(ctx, "w", T)
                for w in ws:
                    ctx.assume(w > 0)
                inp["hw"] = ws
            else:
                inp["hw"] = None
            if m == 1:
                inp["mo"] = "uniform_average"
            else:
                mo = ctx.fresh_int("mo")
                ctx.assume((mo >= 0) & (mo <= 2))
                mo = int(mo)
                if mo == 2:
                    mw = fresh_reals(ctx, "mw", m)
                    for w in mw:
                        ctx.assume(w > 0)
                    inp["mo"] = mw
                else:
                    inp["mo"] = ["raw_values", "uniform_average"][mo]
            inp["symmetric"] = bool(ctx.fresh_bool("symmetric")) if spec.get("symm") else True
            inp["square_root"] = bool(ctx.fresh_bool("square_root")) if spec.get("sqrt") else False
            if spec.get("bench"):
                inp["yb"] = [fresh_reals(ctx, "b%d_" % j, T) for j in range(m)]
            if spec.get("scaled"):
                sp = ctx.fresh_int("sp")
                Lt = ctx.fresh_int("L")
                ctx.assume((sp >= 1) & (sp <= 2) & (Lt > sp) & (Lt <= (3 if tier_q else 4)))
                inp["sp"], Lt = int(sp), int(Lt)
                inp["ytr"] = [fresh_reals(ctx, "r%d_" % j, Lt) for j in range(m)]
            if spec["elem"] == "asym":
                inp["thr"] = ctx.fresh_real("thr")
                lr = ctx.fresh_int("lr")
                ctx.assume((lr >= 0) & (lr <= 3))
                lr = int(lr)
                inp["left"] = ["squared", "absolute"][lr // 2]
                inp["right"] = ["squared", "absolute"][lr % 2]
        elif kind in ("laws", "smape"):
            inp["which"] = int(self._choice(ctx, "which", 0, len(self._law_metrics(kind)) - 1))
            inp["symmetric"] = bool(ctx.fresh_bool("symmetric")) if kind == "laws" else True
            inp["yb"] = [fresh_reals(ctx, "b0_", T)]
            inp["ytr"] = [fresh_reals(ctx, "r0_", 3)]
        elif kind == "scale":
            inp["which"] = int(self._choice(ctx, "which", 0, 3))
            inp["ytr"] = [fresh_reals(ctx, "r0_", 2 if symc else 3)]
            if symc:
                inp["c"] = ctx.fresh_real("c")
                ctx.assume(inp["c"] > 0)
            else:
                inp["c"] = [Fraction(2), Fraction(1, 3)][int(self._choice(ctx, "cidx", 0, 1))]
        elif kind == "gmfloor":
            inp["which"] = int(self._choice(ctx, "which", 0, 1))
            inp["square_root"] = bool(ctx.fresh_bool("square_root")) if inp["which"] == 1 else False
            inp["yb"] = [fresh_reals(ctx, "b0_", T)]
            if bool(ctx.fresh_bool("weighted")):
                ws = fresh_reals(ctx, "w", T)
                for w in ws:
                    ctx.assume(w > 0)
                inp["hw"] = ws
        elif kind == "classes":
            inp["which"] = int(self._choice(ctx, "which", 0, len(self._class_list()) - 1))
            inp["symmetric"] = bool(ctx.fresh_bool("symmetric"))
            inp["square_root"] = bool(ctx.fresh_bool("square_root"))
            inp["via_set_params"] = bool(ctx.fresh_bool("via_set_params"))  # options given at construction or set afterwards
        return inp

    @staticmethod
    def _choice(ctx, name, lo, hi):
        v = ctx.fresh_int(name)
        ctx.assume((v >= lo) & (v <= hi))
        return v

    def _law_metrics(self, kind):
        if kind == "smape":
            return ["mean_absolute_percentage_error", "median_absolute_percentage_error", "mean_squared_percentage_error", "median_squared_percentage_error"]
        return [k for k in METRICS if METRICS[k]["agg"] != "gmean"]

    def _class_list(self):
        return [
            ("MeanAbsoluteError", "mean_absolute_error", ()),
            ("MeanSquaredError", "mean_squared_error", ("square_root",)),
            ("MedianAbsoluteError", "median_absolute_error", ()),
            ("MedianSquaredError", "median_squared_error", ("square_root",)),
            ("MeanAbsolutePercentageError", "mean_absolute_percentage_error", ("symmetric",)),
            ("MedianAbsolutePercentageError", "median_absolute_percentage_error", ("symmetric",)),
            ("MeanSquaredPercentageError", "mean_squared_percentage_error", ("symmetric", "square_root")),
            ("MedianSquaredPercentageError", "median_squared_percentage_error", ("symmetric", "square_root")),
            ("MeanAsymmetricError", "mean_asymmetric_error", ()),
            ("MeanAbsoluteScaledError", None, ()),
            ("MedianAbsoluteScaledError", None, ()),
            ("MeanSquaredScaledError", None, ("square_root",)),
            ("MedianSquaredScaledError", None, ("square_root",)),
            ("MeanRelativeAbsoluteError", None, ()),
            ("MedianRelativeAbsoluteError", None, ()),
            ("GeometricMeanRelativeAbsoluteError", None, ()),
            ("GeometricMeanRelativeSquaredError", None, ("square_root",)),
            ("RelativeLoss", None, ()),
        ]

    # ------------------------------------------------------------------
    @staticmethod
    def _arr(W, cols):
        np = W.np
        if len(cols) == 1:
            return np.array(list(cols[0]))
        return np.array([[cols[j][t] for j in range(len(cols))] for t in range(len(cols[0]))])

    def _call(self, W, F, name, inp, yt=None, yp=None, yb=None, ytr=None):
        np = W.np
        spec = METRICS[name]
        kw = {}
        if inp.get("hw") is not None:
            kw["horizon_weight"] = np.array(list(inp["hw"]))
        mo = inp.get("mo", "uniform_average")
        kw["multioutput"] = mo if isinstance(mo, str) else np.array(list(mo))
        if spec.get("symm"):
            kw["symmetric"] = inp.get("symmetric", True)
        if spec.get("sqrt"):
            kw["square_root"] = inp.get("square_root", False)
        args = [self._arr(W, yt or inp["yt"]), self._arr(W, yp or inp["yp"])]
        if spec.get("bench"):
            args.append(self._arr(W, yb or inp["yb"]))
        if spec.get("scaled"):
            args.append(self._arr(W, ytr or inp["ytr"]))
            kw["sp"] = inp.get("sp", 1)
        asym = dict(asymmetric_threshold=inp.get("thr", 0), left_error_function=inp.get("left", "squared"), right_error_function=inp.get("right", "absolute"))
        if spec.get("relfn"):
            kw["relative_loss_function"] = lambda a, b, horizon_weight=None, multioutput="uniform_average": F.mean_asymmetric_error(a, b, horizon_weight=horizon_weight, multioutput=multioutput, **asym)
        elif spec["elem"] == "asym":
            kw.update(asym)
        return getattr(F, spec.get("fn", name))(*args, **kw)

    @staticmethod
    def _val(r):
        if hasattr(r, "__len__"):
            return L(r)
        return S(r)

    def scenario(self, W, inp, cell):
        self._curW = W
        F = W.load(FUNCS)
        kind = cell["kind"]
        if kind == "fn":
            return {"value": self._val(self._call(W, F, cell["metric"], inp))}
        if kind in ("laws", "smape"):
            name = self._law_metrics(kind)[inp["which"]]
            out = {"value": self._val(self._call(W, F, name, inp))}
            out["perfect"] = self._val(self._call(W, F, name, inp, yp=inp["yt"]))
            if kind == "smape":
                out["swapped"] = self._val(self._call(W, F, name, inp, yt=inp["yp"], yp=inp["yt"]))
            return out
        if kind == "gmfloor":
            name = ["geometric_mean_relative_absolute_error", "geometric_mean_relative_squared_error"][inp["which"]]
            return {"perfect": self._val(self._call(W, F, name, inp, yp=inp["yt"]))}
        if kind == "scale":
            name = ["mean_absolute_scaled_error", "median_absolute_scaled_error", "mean_squared_scaled_error", "median_squared_scaled_error"][inp["which"]]
            c = inp["c"]
            sc = lambda cols: [[c * v for v in col] for col in cols]  # noqa
            return {"value": self._val(self._call(W, F, name, inp)), "scaled": self._val(self._call(W, F, name, inp, yt=sc(inp["yt"]), yp=sc(inp["yp"]), ytr=sc(inp["ytr"])))}
        if kind == "classes":
            C = W.load("sktime.performance_metrics.forecasting._classes")
            cname, fname, opts = self._class_list()[inp["which"]]
            kw = {o: inp[o] for o in opts}
            if inp.get("via_set_params") and kw:
                obj = getattr(C, cname)(**{o: (not v) for o, v in kw.items()})
                obj.set_params(**kw)
            else:
                obj = getattr(C, cname)(**kw)
            yt, yp = self._arr(W, inp["yt"]), self._arr(W, inp["yp"])
            try:
                cls = self._val(obj(yt, yp))
            except (TypeError, AttributeError) as e:
                return {"raised": type(e).__name__, "name": obj.name, "gib": obj.greater_is_better}
            if fname is None:
                return {"raised": None, "cls": cls, "name": obj.name, "gib": obj.greater_is_better}
            return {"raised": None, "cls": cls, "fn": self._val(getattr(F, fname)(yt, yp, **kw)), "name": obj.name, "gib": obj.greater_is_better}
        raise AssertionError(kind)

    def comparable(self, out, cell):
        if cell["kind"] == "gmfloor" or (cell["kind"] == "fn" and METRICS[cell["metric"]]["agg"] == "gmean"):
            return {}
        return out

    # ------------------------------------------------------------------
    def _textbook(self, W, name, inp, yt=None, yp=None):
        """per-output values, then the multioutput aggregate -- written from the published definitions"""
        spec = METRICS[name]
        yt = yt or inp["yt"]
        yp = yp or inp["yp"]
        m, T = len(yt), len(yt[0])
        ws = inp.get("hw")
        o = {"symmetric": inp.get("symmetric", True), "thr": inp.get("thr", 0), "left": inp.get("left", "squared"), "right": inp.get("right", "absolute")}
        sq = inp.get("square_root", False)
        per = []
        for j in range(m):
            b = inp["yb"][j] if spec.get("bench") else [None] * T
            es = [elem(spec["elem"], yt[j][t], yp[j][t], b[t], o) for t in range(T)]
            v = aggregate(W, spec["agg"], es, ws)
            if spec.get("ratio"):
                eb = [elem(spec["elem"], yt[j][t], b[t], None, o) for t in range(T)]
                per.append((v, aggregate(W, spec["agg"], eb, ws)))
                continue
            if spec.get("scaled"):
                tr = inp["ytr"][j]
                sp = inp.get("sp", 1)
                en = [elem(spec["elem"], tr[i], tr[i - sp], None, o) for i in range(sp, len(tr))]
                per.append((v, aggregate(W, spec["agg"], en, None)))
                continue
            if sq and spec.get("sqrt"):
                v = vsqrt(v)
            per.append(v)
        return per

    def oracle(self, P, inp, out, cell):
        W = self._curW
        kind = cell["kind"]
        eps = EPS if W.kind == "sym" else float(EPS)
        if kind == "fn":
            name = cell["metric"]
            spec = METRICS[name]
            per = self._textbook(W, name, inp)
            mo = inp["mo"]
            m = inp["m"]
            val = out["value"]
            two_stage = spec.get("scaled") or spec.get("ratio")
            if two_stage:
                # numerator / max(denominator, EPS); for several outputs both are aggregated first (documented
                # composition: the scaled error of the aggregated losses); raw_values: per column
                def fin(num, den):
                    r = num / vmax(den, eps)
                    if inp.get("square_root") and spec.get("sqrt"):
                        r = vsqrt(r)
                    return r

                if mo == "raw_values":
                    want = [fin(n_, d_) for n_, d_ in per]
                elif isinstance(mo, str):
                    want = fin(sum(n_ for n_, _ in per) / m, sum(d_ for _, d_ in per) / m)
                else:
                    want = fin(sum(n_ * w for (n_, _), w in zip(per, mo)) / sum(mo), sum(d_ * w for (_, d_), w in zip(per, mo)) / sum(mo))
            else:
                if mo == "raw_values":
                    want = per
                elif isinstance(mo, str):
                    want = sum(per) / m
                else:
                    want = sum(v * w for v, w in zip(per, mo)) / sum(mo)
            if isinstance(want, list):
                P.check("raw-shape", isinstance(val, list) and len(val) == len(want))
                if isinstance(val, list) and len(val) == len(want):
                    for a, b in zip(val, want):
                        P.eq("formula", a, b, {"metric": name})
            else:
                P.check("raw-shape", not isinstance(val, list))
                if not isinstance(val, list):
                    P.eq("formula", val, want, {"metric": name})
            return
        if kind in ("laws", "smape"):
            name = self._law_metrics(kind)[inp["which"]]
            v, pf = out["value"], out["perfect"]
            P.check("nonneg", v >= 0, {"metric": name})
            P.eq("perfect-zero", pf, 0, {"metric": name})
            if kind == "smape":
                P.eq("smape-symmetric", out["swapped"], v, {"metric": name})
                bound = 4 if "squared" in name else 2
                P.check("smape-bounded", v <= bound, {"metric": name})
            return
        if kind == "gmfloor":
            # perfect forecast: every relative error is 0 -> replaced by EPS -> geometric mean = exp(log(EPS)) = EPS
            if P.sym:
                import z3

                P.assume(symx.wrap(mnp.UF_EXP(mnp.UF_LOG(z3.RealVal(EPS))) == z3.RealVal(EPS)))
            floor = vsqrt(EPS) if inp.get("square_root") else EPS
            P.eq("gmean-floor", out["perfect"], floor if P.sym else float(floor))
            return
        if kind == "scale":
            # invariance holds when the in-sample naive error is not clamped by EPS
            F = None
            tr = inp["ytr"][0]
            c = inp["c"]
            sq = inp["which"] >= 2
            med = inp["which"] % 2 == 1
            es = [abs(tr[i] - tr[i - 1]) for i in range(1, len(tr))]
            if sq:
                es = [e * e for e in es]
            naive = wmedian(es, None) if med else wmean(es, None)
            k = c * c if sq else c
            if P.sym:
                P.assume((naive > eps) & (naive * k > eps))
            elif not (naive > eps and naive * k > eps):
                return
            P.eq("scale-invariant", out["scaled"], out["value"])
            return
        if kind == "classes":
            P.check("class-callable", out["raised"] is None, {"class": out["name"], "raised": out["raised"]})
            if "fn" in out:
                P.eq("class-equals-function", out["cls"], out["fn"])
            P.check("class-equals-function", out["gib"] is False and out["name"] == self._class_list()[inp["which"]][0])

    def signature(self, label, inp, cell):
        if cell["kind"] == "fn":
            return "%s/%s/%s%s" % (cell["metric"], label, "weighted" if inp.get("hw") is not None else "unweighted", "" if inp.get("symmetric", True) else "/asymmetric")
        if cell["kind"] == "classes":
            return "classes/%s/%s" % (self._class_list()[inp["which"]][0], label)
        return "%s/%s" % (cell["name"], label)


HARNESS = C06()


def run_check(tier, seed, jobs=None, only=None):
    from .. import runner

    HARNESS._tier = tier
    return runner.run_check(HARNESS, tier, seed, jobs=jobs, only=only)
