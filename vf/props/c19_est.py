"""Module-level (hence picklable) counting estimators for the C19 harness."""
import numpy as np
from sklearn.base import BaseEstimator, RegressorMixin

STATE = {"n": 0, "K": None, "fits": 0, "predicts": 0, "log": []}


class Crash(RuntimeError):
    pass


def _tick(kind):
    STATE["n"] += 1
    K = STATE["K"]
    if K is not None and (STATE["n"] == K):
        raise Crash("injected failure at call %d (%s)" % (STATE["n"], kind))
    STATE[kind] += 1


class CountingRegressor(RegressorMixin, BaseEstimator):
    """deterministic: prediction = slope * feature + number of training rows + 100 * first training feature
    (+ 1000 per earlier fit of the *same object*: a fresh clone per fold never has one)"""

    def __init__(self, slope=2.0):
        self.slope = slope

    def fit(self, X, y):
        _tick("fits")
        self.nfits_ = getattr(self, "nfits_", 0) + 1
        self.n_train_ = len(X)
        self.first_ = float(np.asarray(X.iloc[:, 0])[0])
        STATE["log"].append(("fit", len(X)))
        return self

    def predict(self, X):
        _tick("predicts")
        STATE["log"].append(("predict", len(X)))
        return self.slope * np.asarray(X.iloc[:, 0], dtype=float) + self.n_train_ + 100 * self.first_ + 1000 * (self.nfits_ - 1)
