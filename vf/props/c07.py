"""C07 -- evaluate() reports what an honest per-fold fit, predict and score would give."""
from ..runner import Harness
from ..hutil import L, S, fresh_ints, fresh_reals, increasing

EVAL = "sktime.forecasting.model_evaluation._functions"
SPLIT = "sktime.forecasting.model_selection._split"


def make_recorder(W, log):
    """recording forecaster: logs every call; forecasts are an uninterpreted function of (cutoff, label)"""
    pd = W.pd
    BF = W.load("sktime.forecasting.base._base").BaseForecaster

    calls = {"n": 0, "fail_at": 0}

    class Rec(BF):
        FAIL = calls  # fit / update number `fail_at` (counted over all clones) raises

        def _count(self):
            calls["n"] += 1
            if calls["fail_at"] and calls["n"] == calls["fail_at"]:
                raise RuntimeError("stub: cannot be fitted on this window")

        def __init__(self, p=0, nan_last=False, scribbles=False, positive=False):
            self.p = p
            self.nan_last = nan_last
            self.scribbles = scribbles
            self.positive = positive  # forecasts |F| + 1 (> 0): percentage errors are then defined
            super().__init__()

        def fit(self, y, X=None, fh=None, **kw):
            log.append({"op": "fit", "idx": L(y.index), "vals": L(y.values), "xidx": None if X is None else L(X.index), "p": S(self.p)})
            self._count()
            self._cut = y.index[-1]
            if getattr(self, "scribbles", False):
                y.iloc[0] = y.iloc[0] + 1000  # a forecaster that pre-processes its training data in place: folds must not share memory
            self._is_fitted = True
            return self

        def update(self, y, X=None, update_params=True):
            log.append({"op": "update", "idx": L(y.index), "vals": L(y.values), "xidx": None if X is None else L(X.index), "p": S(self.p), "update_params": update_params})
            self._count()
            self._cut = y.index[-1]
            return self

        def predict(self, fh=None, X=None, **kw):
            labs = L(fh.to_absolute(self._cut).to_pandas())
            log.append({"op": "predict", "labels": labs, "xidx": None if X is None else L(X.index), "cutoff": S(self._cut), "p": S(self.p)})
            vals = [W.uf("forecast", [self.p, self._cut, l], "iii>r") for l in labs]
            if getattr(self, "positive", False):
                vals = [abs(v) + 1 for v in vals]
            if getattr(self, "nan_last", False) and len(vals) > 1:
                vals[-1] = float("nan")  # a forecaster that cannot forecast its last requested step
            return pd.Series(vals, index=pd.Index(labs))

        @property
        def cutoff(self):
            return self._cut

    return Rec


def score_expr(W, a):
    """the stub metric: an uninterpreted function of all values handed to it; when a missing prediction / observation
    reaches it, a function of the other values and of where the holes are (an honest metric would give NaN or raise)"""
    isn = lambda v: isinstance(v, float) and v != v  # noqa: E731
    if any(isn(v) for v in a):
        holes = [i for i, v in enumerate(a) if isn(v)]
        b = [v for v in a if not isn(v)]
        return W.uf("score_%d_holes%s" % (len(a), "_".join(str(i) for i in holes)), b, "r" * len(b) + ">r")
    return W.uf("score_%d" % len(a), a, "r" * len(a) + ">r")


def make_score(W, gib=False, name="stub", honest_nan=False):
    class Score:
        greater_is_better = gib

        def __init__(self):
            self.name = name

        def __call__(self, y_true, y_pred):
            a = L(y_true.values) + L(y_pred.values)
            if honest_nan and any(isinstance(v, float) and v != v for v in a):
                return float("nan")  # like a plain numpy metric
            return score_expr(W, a)

    return Score()


class C07(Harness):
    pid = "C07"
    labels = (
        "reject-iff-window-does-not-fit",
        "one-row-per-split",
        "cutoff",
        "len-train-window",
        "score-is-metric(y_true,y_pred)",
        "fit-on-train-window",
        "update-on-train-window",
        "predict-test-points",
        "no-leakage",
        "X-train",
        "X-test",
        "returned-data",
    )
    stubs = (
        "forecaster := recording stub (forecast = uninterpreted function of parameter, cutoff and target label)",
        "scoring := callable returning an asymmetric uninterpreted function S(y_true..., y_pred...)",
        "time.time := real clock (values ignored)",
    )
    assumptions = ("integer time index with arbitrary spacing g >= 1 (RangeIndex or Int64Index)", "start_with_window=True (enforced by evaluate)", "window_length, step_length >= 1, fh strictly increasing out-of-sample")
    outside = ("series longer than the stated n", "fit_params passing", "datetime / period time indices")

    def bounds(self, tier):
        q = tier == "quick"
        return {"n_max": 6 if q else 9, "fh_steps": [1, 2], "folds": "all that fit"}

    def cells(self, tier):
        b = self.bounds(tier)
        out = []
        for sk in ("expanding", "sliding", "single"):
            for strat in ("refit", "update"):
                for K in b["fh_steps"]:
                    for withX in (False, True):
                        out.append({"name": "%s-%s-k%d-%s" % (sk, strat, K, "X" if withX else "noX"), "kind": sk, "strategy": strat, "K": K, "withX": withX, "N": b["n_max"], "cost": K + (1 if sk != "single" else 0)})
        # exogenous rows with a small symbolic index origin (|s0| <= 3): code that mixes up labels and positions turns
        # the origin into an array length, which the unbounded origin of the cells above cannot enumerate
        # no scoring given: the documented default is the symmetric mean absolute percentage error (the library's real
        # metric code runs; positive observations and forecasts keep it defined)
        out.append({"name": "sliding-refit-k2-noX-default-scoring", "kind": "sliding", "strategy": "refit", "K": 2, "withX": False, "N": min(b["n_max"], 5), "default_scoring": True, "cost": 3})
        # the first time point is recorded twice (a non-decreasing index is accepted): windows go by position
        out.append({"name": "expanding-refit-k1-X-tie", "kind": "expanding", "strategy": "refit", "K": 1, "withX": True, "N": min(b["n_max"], 5), "tie_first": True, "cost": 2})
        for sk, strat in (("expanding", "update"), ("sliding", "refit")):
            out.append({"name": "%s-%s-k1-X-origin" % (sk, strat), "kind": sk, "strategy": strat, "K": 1, "withX": True, "N": min(b["n_max"], 5), "origin": 3, "cost": 2})
        return out

    def overrides(self, kind, cell):
        if cell.get("default_scoring"):
            from .c06 import HARNESS as _c06

            return _c06.overrides(kind, {"kind": "fn"})
        return None

    def inputs(self, ctx, cell):
        N, K = cell["N"], cell["K"]
        n = ctx.fresh_int("n")
        ctx.assume((n >= 2) & (n <= N))
        nn = int(n)
        inp = {"n": nn, "s0": ctx.fresh_int("s0"), "y": fresh_reals(ctx, "y", nn)}
        if cell.get("origin"):
            ctx.assume((inp["s0"] >= -cell["origin"]) & (inp["s0"] <= cell["origin"]))
        inp["g"] = ctx.fresh_int("g")  # spacing of the integer time index (labels s0, s0+g, s0+2g, ...)
        ctx.assume(inp["g"] >= 1)
        inp["wl"] = ctx.fresh_int("wl")
        ctx.assume(inp["wl"] >= 1)
        if cell["kind"] != "single":
            inp["sl"] = ctx.fresh_int("sl")
            ctx.assume(inp["sl"] >= 1)
        else:
            ctx.assume(inp["wl"] <= nn + 1)
        hs = fresh_ints(ctx, "h", K)
        increasing(ctx, hs, lo=1)
        if cell["kind"] == "single":
            ctx.assume(hs[-1] <= nn - 1)
        inp["fh"] = hs
        if cell["withX"]:
            inp["x"] = fresh_reals(ctx, "x", nn)
        if cell.get("tie_first"):
            ctx.assume(n >= 3)
            ctx.assume(inp["wl"] >= 2)  # (both recordings of the first time point lie in every training window)
            inp.update(return_data=False, prefitted=False, nan_last=False, fail_second=False, range_index=False, tie_first=True)
            return inp
        if cell.get("default_scoring"):
            for v in inp["y"]:
                ctx.assume(v > 0)
            inp.update(return_data=False, prefitted=False, nan_last=False, fail_second=False, range_index=True)
            ctx.assume(inp["g"] == 1)
            return inp
        inp["return_data"] = bool(ctx.fresh_bool("return_data"))
        inp["prefitted"] = bool(ctx.fresh_bool("prefitted"))  # the forecaster handed to evaluate() was fitted on the whole series before
        inp["nan_last"] = K > 1 and inp["prefitted"] and not inp["return_data"]  # (tied to other flags to keep the path count)
        inp["fail_second"] = K == 1 and inp["prefitted"] and inp["return_data"]  # the forecaster fails in the second fold
        if K == 1 and not inp["prefitted"] and not inp["return_data"]:  # (tied to other flags to keep the path count)
            inp["y"][0] = float("nan")  # a missing observation at the start of the series: it lies in training windows only
        inp["range_index"] = inp["prefitted"] == inp["return_data"]
        if inp["range_index"]:
            ctx.assume(inp["g"] == 1)  # (a symbolic RangeIndex step makes the length computation nonlinear: spaced labels use an Int64Index)
        return inp

    def scenario(self, W, inp, cell):
        np, pd = W.np, W.pd
        self._curW = W
        ev = W.load(EVAL)
        sp = W.load(SPLIT)
        n, s0 = inp["n"], inp["s0"]
        g = inp["g"]
        if inp.get("tie_first"):
            idx = pd.Index([s0] + [s0 + g * i for i in range(n - 1)])
        elif inp["range_index"]:
            idx = pd.RangeIndex(s0, s0 + n)
        else:
            idx = pd.Index([s0 + g * i for i in range(n)])
        y = pd.Series(inp["y"], index=idx)
        X = pd.DataFrame({"x": inp["x"]}, index=idx) if cell["withX"] else None
        fh = np.array(inp["fh"])
        if cell["kind"] == "expanding":
            cv = sp.ExpandingWindowSplitter(fh=fh, initial_window=inp["wl"], step_length=inp["sl"])
        elif cell["kind"] == "sliding":
            cv = sp.SlidingWindowSplitter(fh=fh, window_length=inp["wl"], step_length=inp["sl"])
        else:
            cv = sp.SingleWindowSplitter(fh=fh, window_length=inp["wl"])
        log = []
        Rec = make_recorder(W, log)
        sc = make_score(W, gib=bool(inp["return_data"]))  # the scorer's direction flag must not change the reported value
        if cell.get("default_scoring"):
            sc = None
        fc = Rec(positive=bool(cell.get("default_scoring")), nan_last=bool(inp.get("nan_last")), scribbles=(not inp.get("prefitted")) and not inp.get("return_data"))  # (with return_data the fold objects are handed back: left alone)
        if inp.get("prefitted"):
            fc.fit(y, X)
            del log[:]
        fail_at = 2 if inp.get("fail_second") else 0
        Rec.FAIL["n"], Rec.FAIL["fail_at"] = 0, fail_at
        try:
            res = ev.evaluate(fc, cv, y, X, strategy=cell["strategy"], scoring=sc, return_data=inp["return_data"])
        except ValueError:
            return {"rejected": True}
        except RuntimeError:
            if not fail_at:
                raise
            return {"rejected": False, "raised": True}
        finally:
            Rec.FAIL["fail_at"] = 0
        if fail_at and len(list(cv.split(y))) >= fail_at:
            return {"rejected": False, "raised": False, "should_raise": True}
        splits = [[L(a), L(b)] for a, b in cv.split(y)]
        rows = []
        cols = list(res.columns)
        for i in range(len(res)):
            scol = "test_stub" if sc is not None else [c for c in cols if str(c).startswith("test_")][0]
            r = {"score": S(res[scol].iloc[i]), "len": S(res["len_train_window"].iloc[i]), "cutoff": S(res["cutoff"].iloc[i])}
            if inp["return_data"]:
                for c in ("y_train", "y_test", "y_pred"):
                    s = res[c].iloc[i]
                    r[c] = [L(s.index), L(s.values)]
            rows.append(r)
        return {"rejected": False, "rows": rows, "splits": splits, "log": list(log), "cols": sorted(str(c) for c in cols)}

    def oracle(self, P, inp, out, cell):
        W = self._curW
        n, s0, y, fh = inp["n"], inp["s0"], inp["y"], inp["fh"]
        g = inp["g"]
        lab_of = lambda p: s0 + g * (int(p) if P.sym else p)  # noqa: E731  label of position p (positions are path-determined integers)
        if inp.get("tie_first"):
            lab_of = lambda p: s0 + g * max((int(p) if P.sym else p) - 1, 0)  # noqa: E731  (positions 0 and 1 carry the same label)
        hK = fh[-1]
        if cell["kind"] == "single":
            fits = True
        else:
            fits = inp["wl"] + hK <= n
        if out["rejected"]:
            P.check("reject-iff-window-does-not-fit", (~fits) if not isinstance(fits, bool) else (not fits))
            return
        P.check("reject-iff-window-does-not-fit", fits)
        if out.get("raised") or out.get("should_raise"):
            # a fold in which the forecaster fails: its error surfaces, no table with a made-up row comes back
            P.check("one-row-per-split", bool(out.get("raised")), {"what": "the forecaster's exception in the second fold did not surface"})
            return
        rows, splits, log = out["rows"], out["splits"], out["log"]
        P.check("one-row-per-split", len(rows) == len(splits) and len(splits) >= 1)
        want_cols = {"test_MeanAbsolutePercentageError" if cell.get("default_scoring") else "test_stub", "fit_time", "pred_time", "len_train_window", "cutoff"} | ({"y_train", "y_test", "y_pred"} if inp["return_data"] else set())
        P.check("returned-data", set(out["cols"]) == want_cols)
        if len(rows) != len(splits):
            return
        fitcalls = [e for e in log if e["op"] in ("fit", "update")]
        preds = [e for e in log if e["op"] == "predict"]
        P.check("predict-test-points", len(preds) == len(splits) and len(fitcalls) == len(splits))
        if len(preds) != len(splits) or len(fitcalls) != len(splits):
            return
        # order of calls: (fit|update)_i precedes predict_i precedes (fit|update)_{i+1}
        seq = [e["op"] for e in log]
        P.check("predict-test-points", all(seq[2 * i] in ("fit", "update") and seq[2 * i + 1] == "predict" for i in range(len(splits))))
        seen_max = None
        for i, ((tr, te), row) in enumerate(zip(splits, rows)):
            c = lab_of(tr[-1])
            P.eq("cutoff", row["cutoff"], c)
            P.eq("len-train-window", row["len"], len(tr))
            call = fitcalls[i]
            want_op = "fit" if (i == 0 or cell["strategy"] == "refit") else "update"
            lab = "fit-on-train-window" if want_op == "fit" else "update-on-train-window"
            P.check(lab, call["op"] == want_op and len(call["idx"]) == len(tr))
            if len(call["idx"]) == len(tr):
                for a, p, v in zip(call["idx"], tr, call["vals"]):
                    P.eq(lab, a, lab_of(p))
                    P.eq(lab, v, y[int(p)] if P.sym else y[p])
            # leakage: everything handed over so far is strictly before this fold's first test label
            P.check("no-leakage", call["idx"][-1] < lab_of(te[0]))
            for e in fitcalls[: i + 1]:
                P.check("no-leakage", e["idx"][-1] < lab_of(te[0]))
            pr = preds[i]
            P.check("predict-test-points", len(pr["labels"]) == len(te))
            for a, p in zip(pr["labels"], te):
                P.eq("predict-test-points", a, lab_of(p))
            ytrue = [y[int(p)] if P.sym else y[p] for p in te]
            ypred = [W.uf("forecast", [0, c, lab_of(p)], "iii>r") for p in te]
            if inp.get("nan_last") and len(ypred) > 1:
                ypred[-1] = float("nan")
            a = ytrue + ypred
            if cell.get("default_scoring"):
                yp1 = [abs(v) + 1 for v in ypred]
                smape = sum(2 * abs(t_ - p_) / (abs(t_) + abs(p_)) for t_, p_ in zip(ytrue, yp1)) / len(ytrue)
                P.eq("score-is-metric(y_true,y_pred)", row["score"], smape, {"what": "default scoring = symmetric MAPE"})
                continue
            P.eq("score-is-metric(y_true,y_pred)", row["score"], score_expr(W, a))
            if want_op == "update":
                P.check(lab, call.get("update_params") is True, {"what": "the forecaster is updated with parameter re-estimation (update's default)", "update_params": call.get("update_params")})
            if cell["withX"]:
                P.check("X-train", call["xidx"] is not None and len(call["xidx"]) == len(tr))
                if call["xidx"] is not None and len(call["xidx"]) == len(tr):
                    for u, p in zip(call["xidx"], tr):
                        P.eq("X-train", u, lab_of(p))
                xt = pr["xidx"]
                P.check("X-test", xt is not None and len(xt) == te[-1] - tr[-1])
                if xt is not None:
                    for k, u in enumerate(xt):
                        P.eq("X-test", u, lab_of(tr[-1] + 1 + k))
            else:
                P.check("X-train", call["xidx"] is None and pr["xidx"] is None)
            if inp["return_data"]:
                ti, tv = row["y_train"]
                P.check("returned-data", len(ti) == len(tr) and len(row["y_test"][0]) == len(te) and len(row["y_pred"][0]) == len(te))
                for u, p, v in zip(ti, tr, tv):
                    P.eq("returned-data", u, lab_of(p))
                    P.eq("returned-data", v, y[int(p)] if P.sym else y[p])
                for u, v, w_, p in zip(row["y_test"][0], row["y_test"][1], row["y_pred"][1], te):
                    P.eq("returned-data", u, lab_of(p))
                    P.eq("returned-data", v, y[int(p)] if P.sym else y[p])
                    P.eq("returned-data", w_, W.uf("forecast", [0, c, lab_of(p)], "iii>r"))

    def signature(self, label, inp, cell):
        return "evaluate/%s" % label


HARNESS = C07()
