"""Recording stubs shared by the composite / tuning / update harnesses (work in both worlds)."""
from ..hutil import L, S


from ..symx import is_sym as symx_is_sym


def make_member(W, log, required_fh=False):
    """member forecaster: a real sktime forecaster (base-class bookkeeping runs), forecasts are an
    uninterpreted function of (parameter p, cutoff, target label)"""
    pd = W.pd
    sk = W.load("sktime.forecasting.base._sktime")
    Mixin = sk._RequiredForecastingHorizonMixin if required_fh else sk._OptionalForecastingHorizonMixin

    class Member(Mixin, sk._SktimeForecaster):
        NAN_P = None  # a member with this parameter value cannot forecast (returns NaN)

        def __init__(self, p=0, q=0):
            self.p = p
            self.q = q
            super().__init__()

        def fit(self, y, X=None, fh=None):
            self._set_y_X(y, X)
            self._set_fh(fh)
            log.append({"op": "fit", "who": S(self.p), "q": S(self.q), "idx": L(y.index), "vals": L(y.values), "fh": None if fh is None else L(self._fh.to_pandas())})
            self._is_fitted = True
            return self

        def update(self, y, X=None, update_params=True):
            self.check_is_fitted()
            self._update_y_X(y, X)
            log.append({"op": "update", "who": S(self.p), "idx": L(y.index), "vals": L(y.values), "update_params": update_params})
            return self

        def _predict(self, fh, X=None, return_pred_int=False, alpha=None):
            labs = L(fh.to_absolute(self.cutoff).to_pandas())
            log.append({"op": "predict", "who": S(self.p), "labels": labs, "cutoff": S(self.cutoff)})
            if type(self).NAN_P is not None and not symx_is_sym(self.p) and self.p == type(self).NAN_P:
                return pd.Series([float("nan")] * len(labs), index=pd.Index(labs))
            y_pred = pd.Series([W.uf("forecast", [self.p, self.cutoff, l], "iii>r") for l in labs], index=pd.Index(labs))
            if return_pred_int:
                a = alpha[0] if isinstance(alpha, (list, tuple)) else alpha
                log.append({"op": "predict_int", "who": S(self.p), "alpha": S(a)})
                ints = pd.DataFrame({"lower": [W.uf("pi_lower", [self.p, self.cutoff, l, a], "iiir>r") for l in labs], "upper": [W.uf("pi_upper", [self.p, self.cutoff, l, a], "iiir>r") for l in labs]}, index=pd.Index(labs))
                return y_pred, ints
            return y_pred

    return Member


def make_transformer(W, log, stateful=False):
    """elementwise uninterpreted transformer t(tag, v) / tinv(tag, v).  stateful=True: every update(update_params=True)
    moves the fitted state, i.e. the effective tag becomes tag + 100 * (number of such updates since fit)"""
    pd = W.pd
    TB = W.load("sktime.transformations.base")._SeriesToSeriesTransformer

    class T(TB):
        def __init__(self, tag=1):
            self.tag = tag
            super().__init__()

        def _eff(self):
            return self.tag + 100 * getattr(self, "n_upd_", 0)

        def fit(self, Z, X=None):
            log.append({"op": "t.fit", "who": S(self.tag), "idx": L(Z.index), "vals": L(Z.values)})
            self.n_upd_ = 0
            self._is_fitted = True
            return self

        def transform(self, Z, X=None):
            self.check_is_fitted()
            return pd.Series([W.uf("t", [self._eff(), v], "ir>r") for v in L(Z.values)], index=Z.index)

        def inverse_transform(self, Z, X=None):
            self.check_is_fitted()
            return pd.Series([W.uf("tinv", [self._eff(), v], "ir>r") for v in L(Z.values)], index=Z.index)

        def update(self, Z, X=None, update_params=True):
            self.check_is_fitted()
            log.append({"op": "t.update", "who": S(self.tag), "idx": L(Z.index), "vals": L(Z.values), "update_params": update_params})
            if stateful and update_params:
                self.n_upd_ += 1
            return self

    class TSkip(T):
        _tags = {"skip-inverse-transform": True}

    return T, TSkip


def make_regressor(W, log, name="meta"):
    from sklearn.base import BaseEstimator, RegressorMixin

    np = W.np

    class Reg(RegressorMixin, BaseEstimator):
        def __init__(self, tag=0):
            self.tag = tag

        def fit(self, X, y):
            log.append({"op": "reg.fit", "X": L(X), "y": L(y)})
            self.fitted_ = True
            return self

        def predict(self, X):
            rows = L(X)
            log.append({"op": "reg.predict", "X": rows})
            return np.array([W.uf("%s_%d" % (name, len(r)), list(r), "r" * len(r) + ">r") for r in rows])

    return Reg
