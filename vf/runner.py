"""Check driver: cells -> worker processes -> symbolic exploration -> trace validation -> replay ->
evidence / known findings / exit code."""
import hashlib
import json
import math
import multiprocessing as mp
import os
import random
import sys
import time
import traceback
from fractions import Fraction

import z3

from . import symx
from .symx import SInt, SReal, SBool, Ctx, explore, Abort, Inconclusive, ModelGap, unwrap, is_sym
from .world import FuncMonitor
from . import worlds

VERIF = os.path.dirname(os.path.dirname(os.path.abspath(__file__)))
EXIT_OK, EXIT_VIOLATION, EXIT_INCONCLUSIVE = 0, 1, 3
RTOL = 1e-7


CRASH_LABEL = "no-unexpected-exception"  # implicit assertion of every harness: legal inputs do not make the code raise


def _raised_in_repo(e, W):
    """True when the deepest frame that belongs to either the harness or the repository is a repository frame
    (an exception out of harness / stub code is a harness error, never a finding)"""
    from .world import REPO

    repo = os.path.realpath(getattr(W, "repo", None) or REPO)
    props = os.path.join(os.path.dirname(os.path.abspath(__file__)), "props", "")  # (frames of the numpy / pandas models are neutral)
    last = None
    tb = e.__traceback__
    while tb is not None:
        fn = os.path.realpath(tb.tb_frame.f_code.co_filename)
        if fn.startswith(repo + os.sep):
            last = "repo"
        elif fn.startswith(props):
            last = "harness"
        tb = tb.tb_next
    return last == "repo"


class Reject(Exception):
    """raised by a scenario to signal a structural problem of the harness itself"""


# ---------------------------------------------------------------------------------- provers
class SymP:
    sym = True

    def __init__(self, ctx):
        self.ctx = ctx

    def eq(self, label, got, want, detail=None):
        if got is None or want is None:
            return self.check(label, got is None and want is None, detail)
        if isinstance(got, float) and got != got:
            return self.check(label, isinstance(want, float) and want != want, detail)
        if isinstance(want, float) and want != want:
            return self.check(label, False, detail)
        d = {"kind": "eq", "got": got, "want": want}
        if detail:
            d.update(detail)
        if not is_sym(got) and not is_sym(want) and (isinstance(got, float) or isinstance(want, float)):
            # both sides are concrete machine numbers on this path: compare like the concrete oracle does
            return self.ctx.prove(_close(got, want), label, d)
        return self.ctx.prove(got == want, label, d)

    def check(self, label, cond, detail=None):
        return self.ctx.prove(cond, label, detail)

    def fail(self, label, msg=""):
        return self.ctx.prove(False, label, {"msg": msg})

    def assume(self, cond):
        self.ctx.assume(cond)


class ConcP:
    sym = False

    def __init__(self):
        self.failures = []
        self.evaluated = []

    def eq(self, label, got, want, detail=None):
        self.evaluated.append(label)
        ok = _close(got, want)
        if not ok:
            dd = dict(detail or {})
            dd.update({"got": _js(got), "want": _js(want)})
            self.failures.append((label, dd))
        return ok

    def check(self, label, cond, detail=None):
        self.evaluated.append(label)
        ok = bool(cond)
        if not ok:
            self.failures.append((label, dict(detail or {})))
        return ok

    def fail(self, label, msg=""):
        self.evaluated.append(label)
        self.failures.append((label, {"msg": msg}))
        return False

    def assume(self, cond):
        if not bool(cond):
            raise Abort()


def _isnan(x):
    try:
        return isinstance(x, float) and x != x or (type(x).__module__ == "numpy" and bool(x != x))
    except Exception:
        return False


def _num(x):
    import numpy as np

    if isinstance(x, (bool, np.bool_)):
        return int(x)
    if isinstance(x, (int, float, Fraction)):
        return x
    if isinstance(x, (np.integer,)):
        return int(x)
    if isinstance(x, (np.floating,)):
        return float(x)
    return None


def _close(a, b, rtol=RTOL):
    if a is None or b is None:
        return a is None and b is None
    if isinstance(a, str) or isinstance(b, str):
        return a == b
    na, nb = _num(a), _num(b)
    if na is None or nb is None:
        return a == b
    if _isnan(na) or _isnan(nb):
        return _isnan(na) and _isnan(nb)
    if isinstance(na, int) and isinstance(nb, int):
        return na == nb
    for i_, f_ in ((na, nb), (nb, na)):
        # an integer beyond float precision compared with a float: exact (a relative tolerance would hide the rounding)
        if isinstance(i_, int) and isinstance(f_, float) and abs(i_) >= 2 ** 53 and not math.isinf(f_):
            return Fraction(f_) == i_
    fa, fb = float(na), float(nb)
    if math.isinf(fa) or math.isinf(fb):
        return fa == fb
    return abs(fa - fb) <= rtol * max(1.0, abs(fa), abs(fb))


def _js(x):
    """json-able rendering of a value tree"""
    import numpy as np

    if isinstance(x, dict):
        return {str(k): _js(v) for k, v in x.items()}
    if isinstance(x, (list, tuple)):
        return [_js(v) for v in x]
    if isinstance(x, Fraction):
        return str(x) if x.denominator != 1 else int(x)
    if isinstance(x, (bool, np.bool_)):
        return bool(x)
    if isinstance(x, (int, np.integer)):
        return int(x)
    if isinstance(x, (float, np.floating)):
        x = float(x)
        return x if x == x and not math.isinf(x) else repr(x)
    if is_sym(x):
        return "sym:" + str(x.e)[:200]
    if x is None or isinstance(x, str):
        return x
    return repr(x)[:200]


def _unjs(x):
    if isinstance(x, dict):
        return {k: _unjs(v) for k, v in x.items()}
    if isinstance(x, list):
        return [_unjs(v) for v in x]
    if isinstance(x, str):
        if x == "nan":
            return float("nan")
        try:
            if "/" in x:
                return Fraction(x)
        except Exception:
            pass
    return x


# ---------------------------------------------------------------------------------- model -> values
def _zval(v):
    if z3.is_int_value(v):
        return v.as_long()
    if z3.is_rational_value(v):
        return Fraction(v.numerator_as_long(), v.denominator_as_long())
    if z3.is_true(v):
        return True
    if z3.is_false(v):
        return False
    if z3.is_algebraic_value(v):
        return v.approx(30).as_fraction()
    raise Inconclusive("model value not a numeral: %s" % v)


def evaluate(tree, model):
    """substitute a model into a tree of symbolic / concrete leaves -> exact python values"""
    if isinstance(tree, dict):
        return {k: evaluate(v, model) for k, v in tree.items()}
    if isinstance(tree, (list, tuple)):
        return [evaluate(v, model) for v in tree]
    if is_sym(tree):
        return _zval(model.eval(tree.e, model_completion=True))
    import numpy as np

    if isinstance(tree, np.generic):
        return tree.item()
    return tree


def to_float(tree):
    if isinstance(tree, dict):
        return {k: to_float(v) for k, v in tree.items()}
    if isinstance(tree, list):
        return [to_float(v) for v in tree]
    if isinstance(tree, Fraction):
        return float(tree)
    return tree


def compare_trees(sym_vals, conc, path="out"):
    """first difference between exact values of the symbolic outputs and the concrete outputs"""
    if isinstance(sym_vals, dict) or isinstance(conc, dict):
        if not (isinstance(sym_vals, dict) and isinstance(conc, dict)):
            return "%s: structure differs (%r vs %r)" % (path, type(sym_vals).__name__, type(conc).__name__)
        if set(sym_vals) != set(conc):
            return "%s: keys differ %s vs %s" % (path, sorted(sym_vals), sorted(conc))
        for k in sym_vals:
            d = compare_trees(sym_vals[k], conc[k], "%s.%s" % (path, k))
            if d:
                return d
        return None
    if isinstance(sym_vals, (list, tuple)) or isinstance(conc, (list, tuple)):
        if not (isinstance(sym_vals, (list, tuple)) and isinstance(conc, (list, tuple))):
            return "%s: structure differs (%r vs %r)" % (path, sym_vals, conc)
        if len(sym_vals) != len(conc):
            return "%s: length %d vs %d" % (path, len(sym_vals), len(conc))
        for i, (a, b) in enumerate(zip(sym_vals, conc)):
            d = compare_trees(a, b, "%s[%d]" % (path, i))
            if d:
                return d
        return None
    if not _close(sym_vals, conc):
        return "%s: model %r vs real %r" % (path, _js(sym_vals), _js(conc))
    return None


def _leaves(tree, out):
    if isinstance(tree, dict):
        for v in tree.values():
            _leaves(v, out)
    elif isinstance(tree, (list, tuple)):
        for v in tree:
            _leaves(v, out)
    elif is_sym(tree):
        out.append(tree)
    return out


def nice_model(path, inp, extra=(), timeout_ms=10000, allow_raw=True, allow_mild=True):
    """a model of the path condition with 'nice' input values (moderate magnitudes, separated dyadic reals)"""
    leaves = _leaves(inp, [])
    reals = [l.e for l in leaves if isinstance(l, SReal)]
    ints = [l.e for l in leaves if isinstance(l, SInt)]
    base = list(path) + list(extra)
    # 1. ground attempts: all real inputs fixed to random nice values (instant even on nonlinear paths)
    if reals:
        rng = random.Random(len(base) * 31 + len(reals))
        grid = [Fraction(k, 16) for k in range(-160, 161) if abs(k) >= 4]
        for _ in range(24):
            vals = rng.sample(grid, min(len(reals), len(grid)))
            while len(vals) < len(reals):
                vals.append(rng.choice(grid))
            fix = [r == z3.RealVal(v) for r, v in zip(reals, vals)] + [z3.And(v >= -1000, v <= 1000) for v in ints]
            r, m = symx.solve_fresh(base + fix, 2000)
            if r == "sat":
                return m
    nice = []
    for r in reals:
        nice.append(z3.Or(z3.And(r >= z3.RealVal("1/4"), r <= 50), z3.And(r <= -z3.RealVal("1/4"), r >= -50)))
        k = z3.Int("nice!%d" % len(nice))
        nice.append(r * 16 == z3.ToReal(k))
    for i, a in enumerate(reals):
        for b in reals[i + 1 :]:
            nice.append(z3.Or(a - b >= z3.RealVal("1/8"), b - a >= z3.RealVal("1/8")))
    for v in ints:
        nice.append(z3.And(v >= -1000, v <= 1000))
    mild = [z3.And(r >= -1000, r <= 1000) for r in reals] + [z3.And(v >= -1000, v <= 1000) for v in ints]
    attempts = [base + nice] + ([base + mild] if allow_mild else []) + ([base] if allow_raw else [])
    for cons in attempts:
        r, m = symx.solve_fresh(cons, timeout_ms)
        if r == "sat":
            return m
    return None


# ---------------------------------------------------------------------------------- harness base
class Harness:
    pid = "C00"
    labels = ()  # assertion labels that must be evaluated at least once over the whole run
    stubs = ()
    assumptions = ()
    outside = ()
    max_validate_quick = 24
    prove_timeout_ms = 60000
    cell_timeout = {"quick": 480, "thorough": 1800}

    def cells(self, tier):
        raise NotImplementedError

    def bounds(self, tier):
        return {}

    def overrides(self, kind, cell):
        return None

    def make_world(self, kind, cell):
        if kind == "sym":
            return worlds.make_sym_world(self.overrides(kind, cell))
        return worlds.make_conc_world(self.overrides(kind, cell))

    def inputs(self, ctx, cell):
        raise NotImplementedError

    def scenario(self, W, inp, cell):
        raise NotImplementedError

    def oracle(self, P, inp, out, cell):
        raise NotImplementedError

    def signature(self, label, inp, cell):
        return "%s/%s" % (cell.get("kind", cell["name"]), label)

    def nontrivial(self, inp, out, cell):
        return True


# ---------------------------------------------------------------------------------- one cell
def _concrete_run(h, cell, inp_exact, model=None, table=None):
    """run the scenario + oracle on the real stack; returns (outputs, failures, evaluated, memo)"""
    key = ("conc", cell["name"])
    cache = h.__dict__.setdefault("_world_cache", {})
    W = cache.get(key)
    if W is None:
        W = cache[key] = h.make_world("conc", cell)
    W.memo = {}
    W._model = None
    W._table = None
    if model is not None:
        W.set_model(model)
    if table is not None:
        W.set_table(table)
    inp = to_float(inp_exact)
    out = h.scenario(W, inp, cell)
    P = ConcP()
    h.oracle(P, inp, out, cell)
    return out, P.failures, P.evaluated, W.memo


def run_cell(h, cell, tier, seed, budget_s):
    """executed in a worker process; returns a json-able dict"""
    t0 = time.time()
    rng = random.Random((seed, cell["name"]).__repr__())
    mon = FuncMonitor()
    mon.start()
    res = {
        "cell": cell["name"],
        "status": "ok",
        "paths": 0,
        "aborted": 0,
        "decisions": 0,
        "queries": 0,
        "solver_s": 0.0,
        "obligations": 0,
        "discharged": 0,
        "labels": {},
        "validated": 0,
        "validation_errors": [],
        "violations": [],
        "unreproduced": [],
        "samples": [],
        "nontrivial": 0,
        "notes": [],
    }
    symx.CROSS.update(n=0, seen=0, agree=0, unknown=0, disagree=0, seconds=0.0, disagreements=[])
    symx.CROSS["every"] = int(os.environ.get("VF_CROSS_EVERY") or (97 if tier == "thorough" else 53))
    symx.CROSS["cap"] = int(os.environ.get("VF_CROSS_CAP") or (40 if tier == "thorough" else 3))
    try:
        W = h.make_world("sym", cell)
        nval = [0]
        seen_sigs = {}
        distinct = set()

        def fn(ctx):
            inp = h.inputs(ctx, cell)
            ctx.inputs = inp
            try:
                out = h.scenario(W, inp, cell)
            except Exception as e:  # noqa  (Abort / Inconclusive / ModelGap are BaseExceptions and pass through)
                if getattr(ctx, "vacuity_probe", False) or not _raised_in_repo(e, W):
                    raise
                # the code under test raised on inputs the harness considers legal: a finding *iff* the real stack
                # raises the same exception on a model of this path (decided by the replay); otherwise a harness error
                ctx.out = None
                ctx.crash = (type(e).__name__, str(e)[:200], traceback.format_exc()[-1500:])
                ctx.prove(False, CRASH_LABEL, {"raised": type(e).__name__, "message": str(e)[:200]})
                return None
            ctx.out = out
            h.oracle(SymP(ctx), inp, out, cell)
            return None

        first_log = [None]

        def on_path(ctx, rec):
            if first_log[0] is None and getattr(ctx, "n_prove", 0) > 0:
                first_log[0] = list(ctx.log)
            # trace validation against the real stack
            want = tier == "thorough" or nval[0] < h.max_validate_quick or rng.random() < 0.02
            if tier == "quick" and nval[0] >= h.max_validate_quick:
                want = False
            if tier == "thorough" and nval[0] >= cell.get("max_validate", 400):
                want = False
            if want and not ctx.violations:
                m = nice_model(ctx.path, ctx.inputs, timeout_ms=4000, allow_raw=False, allow_mild=False)
                if m is None:
                    res["unvalidated_paths"] = res.get("unvalidated_paths", 0) + 1  # no well-conditioned witness: skipped, not failed
                    return
                inp_exact = evaluate(ctx.inputs, m)
                try:
                    out_c, fails, _, _ = _concrete_run(h, cell, inp_exact, model=m)
                except Abort:
                    return
                cmp = getattr(h, "comparable", None)
                so, co = (cmp(ctx.out, cell), cmp(out_c, cell)) if cmp else (ctx.out, out_c)
                diff = compare_trees(evaluate(so, m), co)
                nval[0] += 1
                key = json.dumps(_js(inp_exact), sort_keys=True)
                if h.nontrivial(inp_exact, out_c, cell):
                    distinct.add(hashlib.sha1(key.encode()).hexdigest())
                if fails:
                    # the real stack violates the oracle on a witness of this path although the symbolic run proved the
                    # path: a concrete counterexample (already "replayed": it *is* the real run).  Reported as a
                    # violation; the disagreement with the models (usually aliasing / in-place state the numpy and
                    # pandas models do not share) is recorded with it.
                    for lab_, det_ in fails[:3]:
                        sig_ = _sig(h, lab_, to_float(inp_exact), cell, det_)
                        if sig_ in seen_sigs:
                            continue
                        seen_sigs[sig_] = True
                        res["violations"].append({"label": lab_, "cell": cell, "model_kind": "trace-validation witness", "inputs": _js(inp_exact), "reproduced": True,
                                                  "real_outputs": _js(out_c), "uf_table": _js(getattr(h.__dict__.get("_world_cache", {}).get(("conc", cell["name"])), "memo", {})),
                                                  "failure": _js(det_), "signature": sig_, "paths_violating": 1,
                                                  "note": "found while validating an explored path against the real stack; symbolic/real difference: %s" % (diff or "none in the compared outputs")})
                elif diff:
                    res["validation_errors"].append({"inputs": _js(inp_exact), "diff": diff, "oracle_failures": _js(fails)})
                elif len(res["samples"]) < 3:
                    res["samples"].append(
                        {
                            "cell": cell["name"],
                            "path_condition": [str(c)[:160] for c in ctx.path[:12]],
                            "inputs": _js(inp_exact),
                            "real_outputs": _js(out_c),
                        }
                    )

        deadline = t0 + budget_s
        er = explore(fn, deadline=deadline, prove_timeout_ms=h.prove_timeout_ms, on_path=on_path, max_paths=cell.get("max_paths", 200000))
        st = er.stats
        res.update(
            paths=st.paths,
            aborted=st.aborted,
            decisions=st.decisions,
            queries=st.queries,
            solver_s=round(st.solver_s, 3),
            obligations=st.obligations,
            discharged=st.discharged,
            labels=dict(st.labels),
            validated=nval[0],
            nontrivial=len(distinct),
            concolic=getattr(st, "concolic", 0),
        )
        if not er.complete:
            res["status"] = "incomplete"
            res["notes"].append(er.reason)
        # --- violations: replay each distinct (label) on the real stack
        groups = {}
        for v, ctx, rec in er.violations:
            try:
                sig = _sig(h, v.label, to_float(evaluate(ctx.inputs, v.model)), cell, v.detail)
            except BaseException:  # noqa
                sig = v.label
            groups.setdefault((v.label, sig), []).append((v, ctx))
        label_ok = {}
        for (label, sig), lst in groups.items():
            confirmed = 0
            # replay candidates: the first few violating paths, the last few and an evenly spaced sample (a spurious
            # symbolic violation of the smallest shape must not hide a real one of a larger shape in the same group)
            cand = list(lst[:4])
            if len(lst) > 4:
                step_ = max(1, len(lst) // 5)
                cand += [lst[i] for i in range(4, len(lst), step_)][:5] + list(lst[-3:])
            for v, ctx in cand:
                r = _replay_violation(h, cell, v, ctx, want_sig=sig)
                if r["reproduced"]:
                    confirmed += 1
                    r["paths_violating"] = len(lst)
                    res["violations"].append(r)
                    break
                res["unreproduced"].append(r)
            label_ok[label] = label_ok.get(label, 0) + confirmed
        for label, n in label_ok.items():
            if n == 0:
                res["status"] = "harness-error"
                res["notes"].append("counterexample for %s did not reproduce on the real stack" % label)
        # --- vacuity twin: prove(False) at every assertion site must be reported on the first path
        if st.paths > 0:
            vst = symx.Stats()
            vctx = Ctx(list(first_log[0] or []), vst, 1000)
            vctx.vacuity_probe = True
            Ctx.cur = vctx
            try:
                fn(vctx)
            except (Abort,):
                pass
            finally:
                Ctx.cur = None
            res["vacuity_sites"] = len(vctx.violations)
        else:
            res["vacuity_sites"] = 0
    except Inconclusive as e:
        res["status"] = "inconclusive"
        res["notes"].append("%s: %s" % (type(e).__name__, e))
        res["notes"].append(traceback.format_exc()[-1500:])
    except BaseException as e:  # noqa
        res["status"] = "harness-error"
        res["notes"].append("%s: %s" % (type(e).__name__, e))
        res["notes"].append(traceback.format_exc()[-2500:])
    mon.stop()
    res["cross"] = {k: symx.CROSS[k] for k in ("n", "agree", "unknown", "disagree")}
    res["cross"]["seconds"] = round(symx.CROSS["seconds"], 2)
    if symx.CROSS["disagreements"]:
        res["cross"]["disagreements"] = symx.CROSS["disagreements"][:3]
    res["extra"] = getattr(h, "_extra", {}).get(cell["name"])
    res["functions"] = mon.functions()
    res["wall_s"] = round(time.time() - t0, 2)
    return res


def _sig(h, label, inp, cell, detail):
    import inspect

    if len(inspect.signature(h.signature).parameters) >= 4:
        return h.signature(label, inp, cell, detail or {})
    return h.signature(label, inp, cell)


def _margin_model(ctx, v):
    d = v.detail or {}
    if d.get("kind") == "eq":
        got, want = unwrap(d["got"]), unwrap(d["want"])
        if z3.is_expr(got) or z3.is_expr(want):
            try:
                g = symx.zreal(d["got"])
                w = symx.zreal(d["want"])
                for margin in ("1/8", "1/1000"):
                    m = nice_model(ctx.path, ctx.inputs, extra=[z3.Or(g - w >= z3.RealVal(margin), w - g >= z3.RealVal(margin))], timeout_ms=5000)
                    if m is not None:
                        return m
            except Exception:
                pass
    return None


def _replay_violation(h, cell, v, ctx, want_sig=None):
    models = []
    mm = _margin_model(ctx, v)
    if mm is not None:
        models.append(("margin", mm))
    models.append(("raw", v.model))
    last = None
    for kind, m in models:
        try:
            inp_exact = evaluate(ctx.inputs, m)
        except Inconclusive as e:
            last = {"reproduced": False, "label": v.label, "why": str(e)}
            continue
        rec = {"label": v.label, "cell": cell, "model_kind": kind, "inputs": _js(inp_exact), "reproduced": False}
        try:
            out_c, fails, evaluated, memo = _concrete_run(h, cell, inp_exact, model=m)
        except Abort:
            rec["why"] = "concrete run rejected the inputs (assumption)"
            last = rec
            continue
        except Exception as e:
            if v.label == CRASH_LABEL and (type(e).__name__ == (v.detail or {}).get("raised") or _raised_in_repo(e, h.make_world("conc", cell))):
                # (the same exception type, or any exception out of repository code: the real stack crashes on these inputs too)
                rec["reproduced"] = True
                rec["failure"] = {"raised": type(e).__name__, "message": str(e)[:200]}
                rec["trace"] = traceback.format_exc()[-1500:]
                rec["signature"] = _sig(h, v.label, to_float(inp_exact), cell, rec["failure"])
                return rec
            rec["why"] = "concrete run raised %s: %s" % (type(e).__name__, e)
            rec["trace"] = traceback.format_exc()[-1500:]
            last = rec
            continue
        if v.label == CRASH_LABEL:
            rec["why"] = "symbolic run raised %s but the real stack does not raise on these inputs" % ((v.detail or {}).get("raised"),)
            rec["sym_trace"] = getattr(ctx, "crash", ("", "", ""))[2]
            last = rec
            continue
        rec["real_outputs"] = _js(out_c)
        rec["uf_table"] = _js(memo)
        hit = [f for f in fails if f[0] == v.label]
        if hit and want_sig is not None:
            # several assertions may share a label: report the failure that belongs to *this* violation (its own
            # signature), not the first one with the label -- otherwise a listed known finding would mask a new one
            def _s(f):
                try:
                    return _sig(h, v.label, to_float(inp_exact), cell, f[1])
                except Exception:  # noqa
                    return None

            same = [f for f in hit if _s(f) == want_sig]
            if same:
                hit = same
        if hit:
            rec["reproduced"] = True
            rec["failure"] = _js(hit[0][1])
            rec["signature"] = _sig(h, v.label, to_float(inp_exact), cell, hit[0][1])
            return rec
        rec["why"] = "real stack does not violate %s on these inputs (other failures: %s)" % (v.label, [f[0] for f in fails])
        last = rec
    return last


# ---------------------------------------------------------------------------------- whole check
def _worker(h, cell, tier, seed, budget, q):
    try:
        r = run_cell(h, cell, tier, seed, budget)
    except BaseException as e:  # noqa
        r = {"cell": cell["name"], "status": "harness-error", "notes": ["%s: %s" % (type(e).__name__, e), traceback.format_exc()[-2000:]]}
    q.put(r)


def load_known():
    p = os.path.join(VERIF, "known_findings.json")
    if not os.path.exists(p):
        return []
    with open(p) as fh:
        return json.load(fh).get("findings", [])


def run_check(h, tier, seed, jobs=None, only=None):
    t0 = time.time()
    cells = h.cells(tier)
    if only:
        cells = [c for c in cells if any(o in c["name"] for o in only)]
    jobs = jobs or int(os.environ.get("VF_JOBS", "0")) or min(16, os.cpu_count() or 4)
    budget = h.cell_timeout[tier]
    if os.environ.get("VF_DEBUG"):
        results = []
        for c in cells:
            r = run_cell(h, c, tier, seed, budget)
            print(json.dumps({k: v for k, v in r.items() if k not in ("functions", "samples")}, indent=1, default=str)[:6000])
            results.append(r)
        return finish(h, tier, seed, cells, results, time.time() - t0, only=only)
    ctx = mp.get_context("fork")
    q = ctx.Queue()
    pending = list(cells)
    pending.sort(key=lambda c: -c.get("cost", 1))
    running = {}
    results = []
    while pending or running:
        while pending and len(running) < jobs:
            c = pending.pop(0)
            p = ctx.Process(target=_worker, args=(h, c, tier, seed, budget, q))
            p.start()
            running[c["name"]] = (p, time.time(), c)
        try:
            r = q.get(timeout=0.5)
            results.append(r)
            p, _, _ = running.pop(r["cell"])
            p.join(5)
        except Exception:
            pass
        now = time.time()
        for name, (p, ts, c) in list(running.items()):
            if now - ts > budget + 60:
                p.kill()
                running.pop(name)
                results.append({"cell": name, "status": "incomplete", "notes": ["killed by wall-clock watchdog after %ds" % (budget + 60)]})
            elif not p.is_alive() and p.exitcode not in (0, None):
                # died without result
                time.sleep(0.2)
                if name in running and q.empty():
                    running.pop(name)
                    results.append({"cell": name, "status": "harness-error", "notes": ["worker died with exit code %s" % p.exitcode]})
    return finish(h, tier, seed, cells, results, time.time() - t0, only=only)


def finish(h, tier, seed, cells, results, wall, only=None):
    known = [k for k in load_known() if k.get("property") == h.pid]
    agg = {k: 0 for k in ("paths", "aborted", "decisions", "queries", "obligations", "discharged", "validated", "nontrivial")}
    solver_s = 0.0
    labels = {}
    functions = set()
    samples = []
    problems = []
    violations = []
    known_hits = []
    cross = {"n": 0, "agree": 0, "unknown": 0, "disagree": 0, "seconds": 0.0}
    for r in results:
        for k in agg:
            agg[k] += r.get(k, 0)
        solver_s += r.get("solver_s", 0.0)
        for k in cross:
            cross[k] += (r.get("cross") or {}).get(k, 0)
        if (r.get("cross") or {}).get("disagree"):
            problems.append("%s: second solver (cvc5) found %d obligation(s) satisfiable that z3 had proved: %s" % (r["cell"], r["cross"]["disagree"], json.dumps(r["cross"].get("disagreements", [])[:1])[:600]))
        for l, n in r.get("labels", {}).items():
            labels[l] = labels.get(l, 0) + n
        functions.update(r.get("functions", []))
        samples.extend(r.get("samples", [])[:1])
        if r.get("status") != "ok":
            problems.append("%s: %s %s" % (r["cell"], r.get("status"), " | ".join(str(n)[:1200] for n in r.get("notes", []))))
        if r.get("validation_errors"):
            problems.append("%s: %d trace-validation mismatches, first: %s" % (r["cell"], len(r["validation_errors"]), json.dumps(r["validation_errors"][0])[:800]))
        if r.get("status") == "ok" and r.get("paths", 0) > 0 and r.get("obligations", 0) > 0 and r.get("vacuity_sites", 0) == 0:
            problems.append("%s: vacuity twin found no reachable assertion" % r["cell"])
        if r.get("concolic", 0) and not r.get("violations"):
            problems.append("%s: repository code forced %d symbolic reals to machine floats (float()/astype); those paths were continued with one representative value each, so the claim is not fully symbolic" % (r["cell"], r["concolic"]))
        if r.get("status") == "ok" and r.get("paths", 0) == 0:
            problems.append("%s: no feasible path (vacuous cell)" % r["cell"])
        for v in r.get("violations", []):
            sig = v.get("signature", "")
            hit = None
            for k in known:
                if k.get("status") == "known" and sig.startswith(k["signature"]):
                    hit = k
            if hit:
                known_hits.append((hit, v))
            else:
                violations.append(v)
    for l in h.labels:
        if labels.get(l, 0) == 0:
            problems.append("assertion label %r was never evaluated (vacuity guard)" % l)
    missing = {c["name"] for c in cells} - {r["cell"] for r in results}
    for m in missing:
        problems.append("%s: no result" % m)

    os.makedirs(os.path.join(VERIF, "evidence"), exist_ok=True)
    os.makedirs(os.path.join(VERIF, "replays"), exist_ok=True)
    out_lines = []
    seen_known = set()
    for k, v in known_hits:
        if k["signature"] not in seen_known:
            seen_known.add(k["signature"])
            out_lines.append("KNOWN-FINDING: property=%s %s [%s] e.g. inputs=%s" % (h.pid, k["description"], k["signature"], json.dumps(v.get("inputs"))[:300]))
    seen_sig = set()
    replay_paths = []
    for v in violations:
        sig = v.get("signature", v["label"])
        if sig in seen_sig:
            continue
        seen_sig.add(sig)
        body = {"property": h.pid, "tier": tier, "signature": sig, **v}
        hsh = hashlib.sha1(json.dumps(body, sort_keys=True, default=str).encode()).hexdigest()[:10]
        path = os.path.join(VERIF, "replays", "%s-%s.json" % (h.pid, hsh))
        with open(path, "w") as fh:
            json.dump(body, fh, indent=1, default=str)
        replay_paths.append(path)
        out_lines.append("VIOLATION property=%s replay=%s" % (h.pid, path))
        out_lines.append("  label=%s signature=%s inputs=%s failure=%s" % (v["label"], sig, json.dumps(v.get("inputs"))[:400], json.dumps(v.get("failure"))[:300]))

    exhaustive = not problems
    if not samples:
        samples = [{"note": "no validated sample", "cells": [c["name"] for c in cells][:5]}]
    ev = {
        "property_id": h.pid,
        "tier": tier,
        "seed": seed,
        "level": "model_checking",
        "coverage": {
            "states": agg["paths"],
            "transitions": agg["decisions"],
            "traces_validated_against_impl": agg["validated"],
            "samples": samples[:6],
            "obligations": agg["obligations"],
            "discharged": agg["discharged"],
            "evaluations": agg["paths"],
            "distinct_nontrivial": agg["nontrivial"],
            "rule": "one evaluation = one feasible path of the real code under symbolic inputs (decided by z3 for all values on it); "
            "distinct_nontrivial counts distinct concrete witnesses of validated paths that the harness marks non-trivial",
            "exhaustive": bool(exhaustive),
            "explanation": "bounded symbolic execution of the repository source over numpy/pandas models; every feasible path within the bounds explored; each obligation discharged by z3 (unsat of path && !property)",
            "bounds": h.bounds(tier),
            "outside_bounds": list(h.outside),
            "cells": [{k: r.get(k) for k in ("cell", "status", "paths", "aborted", "queries", "solver_s", "obligations", "discharged", "validated", "wall_s")} for r in sorted(results, key=lambda r: r["cell"])],
            "assertion_labels": labels,
            "functions_encoded": sorted(functions),
            "solver_queries": agg["queries"],
            "solver_s": round(solver_s, 2),
            "second_solver": {"tool": "cvc5 1.0.3 (binary), 5 s per query", "obligations_rechecked": cross["n"], "agree_unsat": cross["agree"], "unknown_or_timeout": cross["unknown"],
                              "disagree": cross["disagree"], "seconds": round(cross["seconds"], 1), "sampling": "every 97th solver-proved obligation, <= 40 per cell (thorough); every 53rd, <= 3 per cell (quick)"},
            "infeasible_paths": agg["aborted"],
            "known_findings_hit": sorted(seen_known),
            "problems": problems,
            "extra": {r["cell"]: r.get("extra") for r in results if r.get("extra")},
            "solver": "z3 %s" % z3.get_version_string(),
            "stubs": list(worlds.SYM_STUBS) + list(h.stubs),
            "concrete_world_shims": list(worlds.SHIMS),
        },
        "assumptions": list(h.assumptions) + ["floats are modelled as exact reals", "integer time indices only", "size bounds as listed under coverage.bounds"],
        "wall_s": round(wall, 2),
        "violations": len(seen_sig),
    }
    # evidence describes runs against /repo only: a run redirected to a scratch tree (VF_REPO, seeded-change
    # experiments) or restricted to some cells (--only) writes next to it and leaves the committed file alone
    ev_name = "%s.json" % h.pid
    if os.environ.get("VF_REPO") or only:
        ev_name = "%s.scratch.json" % h.pid
    with open(os.path.join(VERIF, "evidence", ev_name), "w") as fh:
        json.dump(ev, fh, indent=1, default=str)
    for l in out_lines:
        print(l)
    print(
        "%s tier=%s cells=%d paths=%d obligations=%d discharged=%d validated=%d queries=%d solver_s=%.1f wall=%.1fs"
        % (h.pid, tier, len(cells), agg["paths"], agg["obligations"], agg["discharged"], agg["validated"], agg["queries"], solver_s, wall)
    )
    if seen_sig:
        return EXIT_VIOLATION
    if problems:
        print("INCONCLUSIVE property=%s" % h.pid)
        for p in problems[:20]:
            print("  problem:", p[:3000])
        return EXIT_INCONCLUSIVE
    print("OK property=%s (held on every explored path)" % h.pid)
    return EXIT_OK


def replay_file(h, path):
    with open(path) as fh:
        body = json.load(fh)
    cell = body["cell"]
    inp = _unjs(body["inputs"])
    if body["label"] == CRASH_LABEL:
        try:
            _concrete_run(h, cell, inp, table=_unjs(body.get("uf_table") or {}))
        except Exception as e:  # noqa
            print("inputs:", json.dumps(_js(inp))[:1000])
            print("REPRODUCED label=%s raised %s: %s" % (body["label"], type(e).__name__, str(e)[:300]))
            print("VIOLATION property=%s replay=%s" % (h.pid, path))
            return EXIT_VIOLATION
        print("not reproduced (no exception)")
        return EXIT_OK
    out, fails, evaluated, _ = _concrete_run(h, cell, inp, table=_unjs(body.get("uf_table") or {}))
    print("inputs:", json.dumps(_js(inp))[:1000])
    print("real outputs:", json.dumps(_js(out))[:1000])
    hit = [f for f in fails if f[0] == body["label"]]
    if hit:
        print("REPRODUCED label=%s failure=%s" % (body["label"], json.dumps(_js(hit[0][1]))))
        print("VIOLATION property=%s replay=%s" % (h.pid, path))
        return EXIT_VIOLATION
    print("not reproduced (failures: %s)" % [f[0] for f in fails])
    return EXIT_OK
