"""The two worlds the repository code is executed in.

SymWorld     : numpy/pandas replaced by the models (mnp/mpd); scalars symbolic.
ConcreteWorld: real numpy/pandas plus the smallest set of shims that make sktime 0.6.0 run on the
               installed stack (pandas 2.3, numpy 2.4, scikit-learn 1.7).  Used to replay
               counterexamples and to validate explored paths against the real libraries.
"""
import builtins
import functools
import numbers
import types
import warnings
from fractions import Fraction

import z3

from . import mnp, mpd, symx
from .symx import SInt, SReal, SBool, wrap, _z
from .world import World, MissingStub

_isinstance = builtins.isinstance

SHIMS = [
    "pd.Int64Index := pd.Index",
    "np.int/np.float/np.bool/np.object := builtins",
    "Index.is_monotonic := is_monotonic_increasing",
    "Series.append / DataFrame.append := pd.concat",
    "Series.iteritems / DataFrame.iteritems := items",
    "pd.Series(index=<ForecastingHorizon>) := index.to_pandas()",
    "np.zeros/full/empty/ones return an ndarray subclass accepting a[i] = <size-1 array> (numpy<=1.24 behaviour)",
    "sklearn.base._pprint, sklearn.utils.metaestimators.if_delegate_has_method, sklearn.model_selection._search._check_param_grid := inert stubs",
    "joblib.Parallel/delayed := sequential, order-preserving",
    "functools.lru_cache := identity",
]

SYM_STUBS = [
    "numpy := vf.mnp model (object arrays of z3-backed scalars)",
    "pandas := vf.mpd model (integer/string labels, symbolic label comparison)",
    "functools.lru_cache := identity",
    "joblib.Parallel/delayed := sequential, order-preserving",
    "isinstance/range in the loaded modules' builtins accept symbolic ints/reals/bools",
    "warnings.warn := inert",
]


# ------------------------------------------------------------------ symbolic world
class _IntMeta(type):
    def __instancecheck__(cls, x):
        return _isinstance(x, (int, SInt, SBool))


def m_isinstance(x, t):
    if _isinstance(t, tuple):
        for tt in t:
            if m_isinstance(x, tt):
                return True
        return False
    if t is int or t is numbers.Integral:
        return _isinstance(x, (int, SInt, SBool)) or (t is numbers.Integral and _isinstance(x, numbers.Integral))
    if t is bool:
        return _isinstance(x, (bool, SBool))
    if t is float:
        return _isinstance(x, (float, SReal, Fraction))
    if t is numbers.Real or t is numbers.Number:
        return _isinstance(x, (t, SInt, SReal, SBool))
    if t is mnp.integer or t is mnp.int64:
        import numpy as _np

        return _isinstance(x, (SInt, _np.integer))
    if t is mnp.floating or t is mnp.float64:
        import numpy as _np

        return _isinstance(x, (SReal, _np.floating, Fraction))
    if t is mnp.number:
        import numpy as _np

        return _isinstance(x, (SInt, SReal, _np.number, Fraction))
    if t is mnp.bool_:
        import numpy as _np

        return _isinstance(x, (SBool, _np.bool_))
    return _isinstance(x, t)


def m_range(*args):
    if all(_isinstance(a, int) for a in args):
        return range(*args)
    return list(mnp.arange(*args))


def _seq_parallel(**kw):
    def run(gen):
        return [f(*a, **k) for f, a, k in gen]

    return run


def _delayed(f):
    return lambda *a, **k: (f, a, k)


class _JoblibProxy(types.ModuleType):
    def __init__(self):
        super().__init__("joblib")
        self.Parallel = _seq_parallel
        self.delayed = _delayed

    def __getattr__(self, k):
        import joblib as _jl

        return getattr(_jl, k)


JOBLIB = _JoblibProxy()
class _FunctoolsProxy(types.ModuleType):
    """the real functools with lru_cache replaced by the identity decorator"""

    def __init__(self):
        super().__init__("functools")
        self.lru_cache = lambda *a, **k: (a[0] if a and callable(a[0]) else (lambda f: f))

    def __getattr__(self, k):
        return getattr(functools, k)


FUNCTOOLS = _FunctoolsProxy()
class _Filters(list):
    """stands for `warnings.filters`: repository code pops the filter it has just pushed with simplefilter()"""

    def pop(self, *a):
        return None


WARNINGS = types.SimpleNamespace(
    warn=lambda *a, **k: None,
    simplefilter=lambda *a, **k: None,
    filterwarnings=lambda *a, **k: None,
    catch_warnings=warnings.catch_warnings,
    filters=_Filters(),
)


def _sk_stubs():
    return {
        "sklearn.utils.metaestimators": types.SimpleNamespace(if_delegate_has_method=lambda delegate: (lambda f: f)),
        "sklearn.model_selection._search": types.SimpleNamespace(_check_param_grid=lambda g: None),
    }


class Handle:
    """What a scenario sees: `W.np`, `W.pd`, `W.load(...)`, `W.uf(...)`, `W.kind`."""

    def __init__(self, kind, world, np, pd):
        self.kind = kind
        self.world = world
        self.np = np
        self.pd = pd
        self._model = None
        self._known = None
        self._ufs = {}
        self.memo = {}
        self._table = None

    def set_table(self, table):
        self._table = table or {}
        self._known = set()
        for rows in self._table.values():
            for row in rows:
                for v in row:
                    if isinstance(v, (int, Fraction)):
                        self._known.add(Fraction(v))
                    elif isinstance(v, float):
                        self._known.add(Fraction(v))

    def load(self, name):
        return self.world.load(name)

    # -- uninterpreted functions --------------------------------------------------------------
    def _decl(self, name, sig):
        key = (name, sig)
        if key not in self._ufs:
            args, ret = sig.split(">")
            sorts = [z3.IntSort() if c == "i" else z3.RealSort() for c in args + ret]
            self._ufs[key] = z3.Function(name, *sorts)
        return self._ufs[key]

    def uf(self, name, args, sig):
        """Apply the uninterpreted function `name` (signature like 'ir>r') to `args`."""
        F = self._decl(name, sig)
        argk = sig.split(">")[0]
        assert len(argk) == len(args), (name, sig, len(args))
        args = [int(a) if (k == "i" and isinstance(a, float) and a.is_integer()) else a for k, a in zip(argk, args)]  # 1.0 for an integer slot
        if self.kind == "sym" or TOKEN_MODE[0] or any(symx.is_sym(a) for a in args):
            zs = []
            for k, a in zip(argk, args):
                e = _z(a)
                if e is NotImplemented:
                    raise symx.ModelGap("uf %s: non-numeric argument %r" % (name, a))
                if k == "r" and z3.is_int(e):
                    e = z3.ToReal(e)
                if k == "i" and not z3.is_int(e):
                    raise symx.ModelGap("uf %s: real passed for int argument" % name)
                zs.append(e)
            return wrap(F(*zs))
        exact = [int(a) if k == "i" else self._snap(a) for k, a in zip(argk, args)]
        key = "%s|%s" % (name, sig)
        if self._model is None:
            if self._table is None:
                raise RuntimeError("concrete uf without a model or table")
            for row in self._table.get(key, []):
                if all(Fraction(x) == Fraction(y) for x, y in zip(row[:-1], exact)):
                    r = row[-1]
                    return r if isinstance(r, int) and sig.endswith(">i") else float(r)
            raise RuntimeError("uf %s%r not in the recorded table" % (name, tuple(exact)))
        zs = [z3.IntVal(a) if k == "i" else z3.RealVal(a) for k, a in zip(argk, exact)]
        v = self._model.eval(F(*zs), model_completion=True)
        if z3.is_int_value(v):
            val = v.as_long()
        elif z3.is_rational_value(v):
            val = Fraction(v.numerator_as_long(), v.denominator_as_long())
        elif z3.is_algebraic_value(v):
            val = v.approx(20).as_fraction()
        else:
            raise RuntimeError("uf %s: model value %s not numeric" % (name, v))
        self.memo.setdefault(key, []).append(exact + [val])
        return val if isinstance(val, int) else float(val)

    def set_model(self, model):
        self._model = model
        self._known = None

    def _snap(self, x):
        if isinstance(x, Fraction):
            return x
        if isinstance(x, int):
            return Fraction(x)
        x = float(x)
        if self._known is None:
            self._known = _model_constants(self._model)
        best = None
        for k in self._known:
            d = abs(float(k) - x)
            if d <= 1e-9 * (1 + abs(x)) and (best is None or d < best[0]):
                best = (d, k)
        return best[1] if best else Fraction(x)


def _model_constants(model):
    out = set()

    def num(v):
        if z3.is_rational_value(v):
            out.add(Fraction(v.numerator_as_long(), v.denominator_as_long()))
        elif z3.is_int_value(v):
            out.add(Fraction(v.as_long()))

    if model is None:
        return out
    for d in model.decls():
        itp = model[d]
        if isinstance(itp, z3.FuncInterp):
            for ent in itp.as_list():
                if isinstance(ent, list):
                    for v in ent:
                        num(v)
                else:
                    num(ent)
        elif z3.is_expr(itp):
            num(itp)
    return out


def make_sym_world(extra_overrides=None, repo=None):
    ov = {"numpy": mnp, "pandas": mpd, "functools": FUNCTOOLS, "joblib": JOBLIB, "warnings": WARNINGS}
    ov.update(_sk_stubs())
    if extra_overrides:
        ov.update(extra_overrides)
    w = World(overrides=ov, extra_builtins={"isinstance": m_isinstance, "range": m_range}, repo=repo)
    return Handle("sym", w, mnp, mpd)


# ------------------------------------------------------------------ concrete world
class _Proxy(types.ModuleType):
    def __init__(self, real, extra):
        super().__init__(real.__name__)
        self.__dict__["_real"] = real
        self.__dict__.update(extra)

    def __getattr__(self, k):
        return getattr(self._real, k)


_patched = False


def _patch_pandas():
    global _patched
    if _patched:
        return
    import pandas as _pd

    if not hasattr(_pd.Index, "is_monotonic"):
        _pd.Index.is_monotonic = property(lambda self: self.is_monotonic_increasing)
    if not hasattr(_pd.Series, "append"):

        def s_append(self, other, ignore_index=False):
            return _pd.concat([self, other], ignore_index=ignore_index)

        def d_append(self, other, ignore_index=False):
            if isinstance(other, dict):
                row = _pd.DataFrame({k: _pd.Series([v], dtype=object if not isinstance(v, (int, float)) else None) for k, v in other.items()})
                if len(self.columns) == 0 and len(self) == 0:
                    return row
                return _pd.concat([self, row], ignore_index=True)
            return _pd.concat([self, other], ignore_index=ignore_index)

        _pd.Series.append = s_append
        _pd.DataFrame.append = d_append
    if not hasattr(_pd.DataFrame, "iteritems"):
        _pd.DataFrame.iteritems = _pd.DataFrame.items
        _pd.Series.iteritems = _pd.Series.items
    _orig = _pd.Series.__init__

    def _init(self, data=None, index=None, *a, **k):
        if index is not None and hasattr(index, "to_pandas") and hasattr(index, "is_relative"):
            index = index.to_pandas()
        _orig(self, data, index, *a, **k)

    _pd.Series.__init__ = _init
    _patched = True


TOKEN_MODE = [False]  # when set, np.zeros/full/empty/ones of the concrete world allocate object arrays (cells may hold symbolic tokens)


def make_conc_world(extra_overrides=None, repo=None, register=False):
    import numpy as _np
    import pandas as _pd

    _patch_pandas()

    class LaxArr(_np.ndarray):
        def __setitem__(self, k, v):
            if isinstance(v, _np.ndarray) and v.size == 1 and v.ndim >= 1:
                try:
                    tgt = _np.ndarray.__getitem__(self, k)
                    if not isinstance(tgt, _np.ndarray) or tgt.ndim == 0:
                        v = v.reshape(()).item()
                except Exception:
                    pass
            _np.ndarray.__setitem__(self, k, v)

    def _lax(f):
        def g(*a, **k):
            dt = k.get("dtype", a[2] if (f is _np.full and len(a) > 2) else (a[1] if (f is not _np.full and len(a) > 1) else None))
            intlike = dt in (int, bool, _np.int64, _np.int32, _np.bool_, "int", "int64", "bool")
            if TOKEN_MODE[0] and not intlike:
                k["dtype"] = object
                if f is _np.full:
                    a = a[:2]
                elif len(a) > 1:
                    a = a[:1]
                r = f(*a, **k)
                if f is _np.zeros:
                    r[...] = 0.0
                elif f is _np.ones:
                    r[...] = 1.0
                return r.view(LaxArr)
            return f(*a, **k).view(LaxArr)

        return g

    np = _Proxy(
        _np,
        {
            "int": int,
            "float": float,
            "bool": bool,
            "object": object,
            "zeros": _lax(_np.zeros),
            "full": _lax(_np.full),
            "empty": _lax(_np.empty),
            "ones": _lax(_np.ones),
        },
    )
    pd = _Proxy(_pd, {"Int64Index": _pd.Index})
    ov = {"numpy": np, "pandas": pd, "functools": FUNCTOOLS, "joblib": JOBLIB, "warnings": WARNINGS}
    ov.update(_sk_stubs())
    if extra_overrides:
        ov.update(extra_overrides)
    w = World(overrides=ov, repo=repo, register=register)
    return Handle("conc", w, np, pd)
