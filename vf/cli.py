"""./check <ID> [--tier quick|thorough] [--replay file] [--only cellsubstr ...]"""
import argparse
import importlib
import os
import sys


def main():
    ap = argparse.ArgumentParser()
    ap.add_argument("pid")
    ap.add_argument("--tier", default=os.environ.get("VERIF_TIER", "quick"), choices=["quick", "thorough"])
    ap.add_argument("--replay")
    ap.add_argument("--only", nargs="*")
    ap.add_argument("--jobs", type=int, default=None)
    a = ap.parse_args()
    seed = int(os.environ.get("VERIF_SEED", "0") or 0)
    mod = importlib.import_module("vf.props.%s" % a.pid.lower())
    h = mod.HARNESS
    from . import runner

    if a.replay:
        sys.exit(runner.replay_file(h, a.replay))
    if hasattr(mod, "run_check"):
        sys.exit(mod.run_check(a.tier, seed, jobs=a.jobs, only=a.only))
    sys.exit(runner.run_check(h, a.tier, seed, jobs=a.jobs, only=a.only))


if __name__ == "__main__":
    main()
