"""Model of the pandas subset used by the anchored sktime code (integer / string labels only).

Label operations use *symbolic comparison* (`==`, `<=` on SInt) and never hash a label.  Index
classes are distinct (`Int64Index`, `RangeIndex`) as in pandas 1.x.
"""
import builtins as _b
import types
from fractions import Fraction

import numpy as _np

from . import mnp
from .mnp import NDArr, _obj, _ret, ModelGap, _isnanv
from .symx import SInt, SReal, SBool, is_sym


def _arr(x):
    return NDArr(_obj(x))


def _eq(a, b):
    """label equality as python truth (forks when symbolic)"""
    if isinstance(a, str) or isinstance(b, str):
        return isinstance(a, str) and isinstance(b, str) and a == b
    return _b.bool(a == b)


class Index:
    _kindname = "object"

    def __init__(self, data=None, dtype=None, name=None, copy=False):
        if isinstance(data, Index):
            data = data._v
        if data is None:
            data = []
        a = _obj(data)
        if a.ndim == 0:
            raise TypeError("Index(...) must be called with a collection of some kind, %r was passed" % (data,))
        if a.ndim != 1:
            raise ValueError("Index data must be 1-dimensional")
        self._v = NDArr(a.copy())
        self.name = name

    def __new__(cls, data=None, dtype=None, name=None, copy=False, **kw):
        if cls is Index:
            # pd.Index(ints) -> Int64Index, as pandas 1.x
            if isinstance(data, RangeIndex):
                return object.__new__(RangeIndex)
            a = None
            try:
                a = _obj(data._v if isinstance(data, Index) else ([] if data is None else data))
            except Exception:
                pass
            if a is not None and a.ndim == 1 and a.size and _b.all(isinstance(v, (SInt, _b.int, _np.integer)) and not isinstance(v, _b.bool) for v in a.flat):
                return object.__new__(Int64Index)
        return object.__new__(cls)

    def _mnp_values(self):
        return self._v

    def _new(self, arr):
        if type(self) is RangeIndex:
            return Int64Index(arr)
        return type(self)(arr, name=self.name)

    def __len__(self):
        return len(self._v)

    @property
    def shape(self):
        return self._v.shape

    @property
    def size(self):
        return self._v.size

    @property
    def ndim(self):
        return 1

    @property
    def dtype(self):
        return self._v.dtype

    @property
    def values(self):
        return self._v

    @property
    def empty(self):
        return len(self._v) == 0

    def to_numpy(self, **kw):
        if kw.get("copy") or kw.get("dtype") is not None:
            return self._v.copy()
        return self._v  # a view of the index's own buffer (pandas 2 without copy-on-write): writes show through

    def to_list(self):
        return list(self._v)

    tolist = to_list

    def copy(self, **kw):
        return type(self)(self._v) if type(self) is not RangeIndex else self._clone()

    def astype(self, t):
        return Index(self._v.astype(t))

    def __iter__(self):
        return iter(self._v)

    def __getitem__(self, k):
        r = self._v[k]
        if isinstance(r, NDArr):
            return self._new(r)
        return r

    def __contains__(self, lab):
        for v in self._v:
            if _eq(v, lab):
                return True
        return False

    @property
    def is_monotonic(self):
        vals = list(self._v)
        for a, b in zip(vals, vals[1:]):
            if not (a <= b):
                return False
        return True

    is_monotonic_increasing = is_monotonic

    @property
    def is_unique(self):
        return self.nunique() == len(self)

    def nunique(self):
        vals = list(self._v)
        n = 0
        for i, a in enumerate(vals):
            dup = False
            for b in vals[:i]:
                if _eq(a, b):
                    dup = True
                    break
            if not dup:
                n += 1
        return n

    def sort_values(self):
        return self._new(mnp.sort(self._v))

    def equals(self, o):
        if not isinstance(o, Index):
            return False
        if len(self) != len(o):
            return False
        for a, b in zip(self._v, o._v):
            if not _eq(a, b):
                return False
        return True

    def identical(self, o):
        """pandas: same elements AND same class AND same attributes (name)"""
        return type(self) is type(o) and self.equals(o) and getattr(self, "name", None) == getattr(o, "name", None)

    def isin(self, labels):
        return mnp.isin(self._v, labels)

    def get_loc(self, lab):
        for i, v in enumerate(self._v):
            if _eq(v, lab):
                return i
        raise KeyError(lab)

    def union(self, o):
        labs = list(self._v)
        for lab in o:
            if not _b.any(_eq(lab, l2) for l2 in labs):
                labs.append(lab)
        return Int64Index(mnp._sorted(labs)) if labs else Index([])

    def intersection(self, o):
        return self._new(_arr([lab for lab in self._v if lab in o]))

    def difference(self, o):
        return self._new(_arr(mnp._sorted([lab for lab in self._v if lab not in o])))

    def append(self, o):
        return self._new(mnp.concatenate([self._v, o._v]))

    def max(self):
        return mnp.amax(self._v)

    def min(self):
        return mnp.amin(self._v)

    def _arith(self, r):
        if not isinstance(r, NDArr):
            return r
        return Int64Index(r) if r.dtype.kind == "i" else Float64Index(r)

    def __add__(self, o):
        return self._arith(self._v + o)

    __radd__ = __add__

    def __sub__(self, o):
        return self._arith(self._v - o)

    def __rsub__(self, o):
        return self._arith(o - self._v)

    def __mul__(self, o):
        return self._arith(self._v * o)

    __rmul__ = __mul__

    def __truediv__(self, o):
        return self._arith(self._v / o)

    def __rtruediv__(self, o):
        return self._arith(o / self._v)

    def __floordiv__(self, o):
        return self._arith(self._v // o)

    def __mod__(self, o):
        return self._arith(self._v % o)

    def __neg__(self):
        return self._arith(-self._v)

    def __le__(self, o):
        return self._v <= o

    def __lt__(self, o):
        return self._v < o

    def __ge__(self, o):
        return self._v >= o

    def __gt__(self, o):
        return self._v > o

    def __eq__(self, o):
        return self._v == o

    def __ne__(self, o):
        return self._v != o

    __hash__ = None

    def __repr__(self):
        return "%s(%s)" % (type(self).__name__, self._v._a.tolist())


class Int64Index(Index):
    def __init__(self, data=None, dtype=None, name=None, copy=False):
        super().__init__(data, name=name)
        for v in self._v._a.flat:
            if isinstance(v, (SInt, _np.integer)) or (isinstance(v, _b.int) and not isinstance(v, _b.bool)):
                continue
            if isinstance(v, (_b.float, Fraction)) and v == _b.int(v):
                continue
            if isinstance(v, SReal):
                if v.is_integer():
                    continue
                raise TypeError("Unsafe NumPy casting, you must explicitly cast")
            if isinstance(v, (_b.float, Fraction)):
                raise TypeError("Unsafe NumPy casting, you must explicitly cast")
            raise TypeError("String dtype not supported, you may need to explicitly cast to a numeric type")
        a = self._v._a
        for i in _b.range(a.size):
            v = a[i]
            if isinstance(v, (_b.float, Fraction)):
                a[i] = _b.int(v)
            elif isinstance(v, SReal):
                import z3

                a[i] = SInt(z3.ToInt(v.e))


class Float64Index(Index):
    pass


class RangeIndex(Index):
    def __init__(self, start=None, stop=None, step=None, name=None, dtype=None, copy=False):
        if isinstance(start, RangeIndex):
            Index.__init__(self, start._v, name=name)
            self._start, self._stop, self._step = start._start, start._stop, start._step
            return
        if isinstance(start, _b.range):
            start, stop, step = start.start, start.stop, start.step
        if stop is None:
            start, stop = 0, (0 if start is None else start)
        if start is None:
            start = 0
        if step is None:
            step = 1
        for v in (start, stop, step):
            if not isinstance(v, (SInt, _b.int, _np.integer)) or isinstance(v, _b.bool):
                raise TypeError("Wrong type %s for RangeIndex argument" % type(v))
        self._start, self._stop, self._step = start, stop, step
        Index.__init__(self, mnp.arange(start, stop, step), name=name)

    def _clone(self):
        return RangeIndex(self)

    @property
    def start(self):
        return self._start

    @property
    def stop(self):
        return self._stop

    @property
    def step(self):
        return self._step

    # pandas keeps the range representation under sorting and under a shift by an integer scalar
    def sort_values(self):
        if len(self) == 0 or self._step > 0:
            return RangeIndex(self)
        first, last = self._v[0], self._v[-1]
        return RangeIndex(last, first - self._step, -self._step)

    def _shift(self, o, sign):
        if isinstance(o, (SInt, _b.int, _np.integer)) and not isinstance(o, _b.bool):
            return RangeIndex(self._start + sign * o, self._stop + sign * o, self._step)
        return None

    def __add__(self, o):
        r = self._shift(o, 1)
        return r if r is not None else Index.__add__(self, o)

    __radd__ = __add__

    def __sub__(self, o):
        r = self._shift(o, -1)
        return r if r is not None else Index.__sub__(self, o)

    def __getitem__(self, k):
        if isinstance(k, slice) and (k.step in (None, 1)) and len(self) and isinstance(self._step, _b.int):
            r = self._v[k]
            if len(r):
                return RangeIndex(r[0], r[-1] + self._step, self._step)
        return Index.__getitem__(self, k)


class _Marker(Index):
    def __init__(self, *a, **k):
        raise ModelGap("%s is outside the integer-index model" % type(self).__name__)


class _TimeLike(Int64Index):
    """period / time-stamp indices: in pandas 1.x subclasses of Int64Index.  Opaque here -- they can be made (through
    period_range / date_range) and recognised by type, which is all that validation code does with them before refusing
    them; any use of their values is outside the integer-index model."""

    def __init__(self, *a, **k):
        raise ModelGap("%s is outside the integer-index model" % type(self).__name__)

    @classmethod
    def _opaque(cls, n):
        o = object.__new__(cls)
        Index.__init__(o, list(_b.range(n)))
        return o

    def _new(self, arr):
        return type(self)._opaque(len(arr))

    def _mnp_values(self):
        raise ModelGap("values of a %s are outside the integer-index model" % type(self).__name__)


class PeriodIndex(_TimeLike):
    pass


class DatetimeIndex(_TimeLike):
    pass


def period_range(start=None, end=None, periods=None, freq=None, name=None):
    return PeriodIndex._opaque(_b.int(periods))


def date_range(start=None, end=None, periods=None, freq=None, **kw):
    return DatetimeIndex._opaque(_b.int(periods))


class TimedeltaIndex(_Marker):
    pass


class MultiIndex(_Marker):
    pass


class Timestamp:
    def __init__(self, *a, **k):
        raise ModelGap("Timestamp")

    @staticmethod
    def now():
        return 0


class Period:
    def __init__(self, *a, **k):
        raise ModelGap("Period")


class Timedelta:
    def __init__(self, *a, **k):
        raise ModelGap("Timedelta")


class DateOffset:
    pass


NA = None
NaT = None


def _as_index(index, n=None):
    if index is None:
        return RangeIndex(n)
    if isinstance(index, Index):
        return index
    if hasattr(index, "to_pandas") and hasattr(index, "is_relative"):
        return index.to_pandas()
    a = _obj(index)
    if a.size and _b.all(isinstance(v, str) for v in a.flat):
        return Index(a)
    return Index(a)


def _positions(index, k, what="label"):
    """positions selected by a .loc key (label, slice of labels, list of labels, bool mask)"""
    labs = list(index._v)
    if isinstance(k, slice):
        if k.step not in (None, 1):
            raise ModelGap("loc slice with step")
        return [i for i, lab in enumerate(labs) if (k.start is None or lab >= k.start) and (k.stop is None or lab <= k.stop)]
    if isinstance(k, (Series,)):
        k = k._v
    if isinstance(k, (Index, NDArr, list, _np.ndarray)) or hasattr(k, "_mnp_values"):
        ks = list(_obj(k).flat)
        if ks and _b.all(isinstance(v, (SBool, _b.bool, _np.bool_)) for v in ks):
            if len(ks) != len(labs):
                raise IndexError("Boolean index has wrong length")
            return [i for i, v in enumerate(ks) if v]
        pos = []
        for lab in ks:
            found = [i for i, l2 in enumerate(labs) if _eq(l2, lab)]  # (a label recorded several times selects all its rows)
            if not found:
                raise KeyError("%r not in index" % (lab,))
            pos.extend(found)
        return pos
    for i, l2 in enumerate(labs):
        if _eq(l2, k):
            return i
    raise KeyError(k)


class _ILoc:
    def __init__(self, s):
        self.s = s

    def __getitem__(self, k):
        s = self.s
        if isinstance(k, (Index, Series)):
            k = k._v
        r = s._v[k]
        if isinstance(r, NDArr):
            return Series(r, index=s.index[k], name=s.name, _share=True)
        return r

    def __setitem__(self, k, v):
        if isinstance(k, (Index, Series)):
            k = k._v
        self.s._v[k] = v


class _Loc:
    def __init__(self, s):
        self.s = s

    def __getitem__(self, k):
        pos = _positions(self.s.index, k)
        if isinstance(pos, list):
            if isinstance(k, slice) and pos and pos == list(_b.range(pos[0], pos[-1] + 1)):
                return self.s.iloc[pos[0] : pos[-1] + 1]
            return self.s.iloc[pos]
        return self.s._v[pos]

    def __setitem__(self, k, v):
        pos = _positions(self.s.index, k)
        self.s._v[pos] = v


class Series:
    def __init__(self, data=None, index=None, name=None, dtype=None, copy=False, _share=False):
        if isinstance(data, Series):
            if index is None:
                index = data.index
            if name is None:
                name = data.name
            data = data._v
        if isinstance(data, dict):
            index = Index(list(data.keys())) if index is None else index
            data = list(data.values())
        if data is None:
            data = [mnp.nan] * (len(index) if index is not None else 0)
        if isinstance(data, NDArr) and _share:
            self._v = data
        else:
            a = _obj(data)
            if a.ndim == 0:
                n = len(index) if index is not None else 1
                a = _obj([a[()]] * n)
            if a.ndim != 1:
                raise ValueError("Data must be 1-dimensional")
            self._v = NDArr(a if (isinstance(data, NDArr) and not copy) else a.copy())
        index = _as_index(index, len(self._v))
        if len(index) != len(self._v):
            raise ValueError("Length of values (%d) does not match length of index (%d)" % (len(self._v), len(index)))
        self.index = index
        self.name = name

    def _mnp_values(self):
        return self._v

    def _from_ufunc(self, r):
        return Series(r, index=self.index, name=self.name) if r.shape == self._v.shape else r

    def __len__(self):
        return len(self._v)

    def __iter__(self):
        return iter(self._v)

    @property
    def shape(self):
        return self._v.shape

    @property
    def ndim(self):
        return 1

    @property
    def size(self):
        return self._v.size

    @property
    def dtype(self):
        return self._v.dtype

    @property
    def empty(self):
        return len(self._v) == 0

    @property
    def values(self):
        return self._v  # aliases the buffer, as pandas does for numeric dtypes

    def to_numpy(self, **kw):
        return self._v

    def to_frame(self, name=None):
        return DataFrame({(name if name is not None else (self.name if self.name is not None else 0)): self._v}, index=self.index)

    def to_list(self):
        return list(self._v)

    tolist = to_list

    def copy(self, deep=True):
        return Series(self._v.copy(), index=self.index, name=self.name)

    def rename(self, name):
        s = Series(self._v, index=self.index, name=name, _share=True)
        return s

    def astype(self, t):
        return Series(self._v.astype(t), index=self.index, name=self.name)

    def items(self):
        return zip(list(self.index), list(self._v))

    iteritems = items

    def keys(self):
        return self.index

    @property
    def iloc(self):
        return _ILoc(self)

    @property
    def loc(self):
        return _Loc(self)

    def __getitem__(self, k):
        if isinstance(k, slice):
            return self.iloc[k]
        if isinstance(k, str):
            return self.loc[k]
        # label-based (integer labels) like pandas for an integer index
        return self.loc[k]

    def __setitem__(self, k, v):
        if isinstance(k, str):
            # enlargement with a new string label
            for i, lab in enumerate(self.index._v):
                if _eq(lab, k):
                    self._v[i] = v
                    return
            self._v = NDArr(_obj(list(self._v._a) + [None]))
            self._v._a[-1] = v
            self.index = Index(list(self.index._v._a) + [k])
            return
        self.loc[k] = v

    def __repr__(self):
        return "Series(%s, index=%s)" % (self._v._a.tolist(), self.index)

    def head(self, n=5):
        return self.iloc[:n]

    def tail(self, n=5):
        return self.iloc[-n:] if n else self.iloc[:0]

    def equals(self, o):
        return isinstance(o, Series) and self.index.equals(o.index) and mnp.array_equal(self._v, o._v)

    def add_prefix(self, p):
        return Series(self._v, index=Index([p + str(l) for l in self.index._v._a]), name=self.name)

    def combine_first(self, other):
        """union of the indices (sorted); self's non-missing values win"""
        if other is None:
            return self
        labs = list(self.index._v)
        vals = list(self._v)
        olabs = list(other.index._v)
        ovals = list(other._v)
        for i, v in enumerate(vals):
            if _isnanv(v):
                for l2, v2 in zip(olabs, ovals):
                    if _eq(l2, labs[i]):
                        vals[i] = v2
        for lab, v in zip(olabs, ovals):
            if not _b.any(_eq(l2, lab) for l2 in labs):
                labs.append(lab)
                vals.append(v)
        order = mnp._argsorted(labs)
        return Series([vals[i] for i in order], index=Int64Index([labs[i] for i in order]), name=self.name)

    def append(self, other, ignore_index=False):
        vals = list(self._v) + list(other._v)
        if ignore_index:
            return Series(vals, name=self.name)
        return Series(vals, index=Index(list(self.index._v) + list(other.index._v)), name=self.name)

    def drop(self, labels):
        pos = _positions(self.index, labels if isinstance(labels, (list, Index, NDArr)) else [labels])
        keep = [i for i in _b.range(len(self)) if i not in pos]
        return self.iloc[keep]

    def isin(self, labels):
        return Series(mnp.isin(self._v, labels), index=self.index)

    def isna(self):
        return Series(mnp.isnan(self._v), index=self.index)

    isnull = isna

    def notna(self):
        return Series(mnp.logical_not(mnp.isnan(self._v)), index=self.index)

    def dropna(self):
        keep = [i for i, v in enumerate(self._v) if not _isnanv(v)]
        return self.iloc[keep]

    def fillna(self, value=None, method=None):
        vals = list(self._v)
        if method in ("ffill", "pad"):
            for i in _b.range(1, len(vals)):
                if _isnanv(vals[i]):
                    vals[i] = vals[i - 1]
        elif method in ("bfill", "backfill"):
            for i in _b.range(len(vals) - 2, -1, -1):
                if _isnanv(vals[i]):
                    vals[i] = vals[i + 1]
        elif method is None:
            vals = [value if _isnanv(v) else v for v in vals]
        else:
            raise ModelGap("fillna method %r" % method)
        return Series(vals, index=self.index, name=self.name)

    def replace(self, to_replace=None, value=None):
        return Series([value if _b.bool(v == to_replace) else v for v in self._v], index=self.index, name=self.name)

    def ffill(self):
        return self.fillna(method="ffill")

    def bfill(self):
        return self.fillna(method="bfill")

    def interpolate(self, method="linear", **kw):
        if method != "linear":
            raise ModelGap("interpolate method %r" % method)
        vals = list(self._v)
        n = len(vals)
        known = [i for i in _b.range(n) if not _isnanv(vals[i])]
        out = list(vals)
        for i in _b.range(n):
            if _isnanv(vals[i]):
                lo = [j for j in known if j < i]
                hi = [j for j in known if j > i]
                if lo and hi:
                    a, b = lo[-1], hi[0]
                    out[i] = vals[a] + (vals[b] - vals[a]) * Fraction(i - a, b - a)
                elif lo:
                    out[i] = vals[lo[-1]]
        return Series(out, index=self.index, name=self.name)

    # reductions
    def _nn(self):
        return [v for v in self._v if not _isnanv(v)]

    def count(self):
        return len(self._nn())

    def last_valid_index(self):
        for lab, v in reversed(list(zip(self.index, self._v))):
            if not _isnanv(v):
                return lab
        return None

    def first_valid_index(self):
        for lab, v in zip(self.index, self._v):
            if not _isnanv(v):
                return lab
        return None

    def mean(self):
        return mnp._mean(self._nn())

    def median(self):
        return mnp._median(self._nn())

    def sum(self):
        return mnp._sum(self._nn())

    def min(self):
        return mnp._fold(self._nn(), mnp._min1)

    def max(self):
        return mnp._fold(self._nn(), mnp._max1)

    def std(self, ddof=1):
        return mnp.std(_arr(self._nn()), ddof=ddof)

    def all(self):
        return mnp.all(self._v)

    def any(self):
        return mnp.any(self._v)

    def _arg(self, f):
        # pandas skips missing values (skipna=True); the position refers to the whole series
        pos = [i for i, v in enumerate(self._v) if not _isnanv(v)]
        if not pos:
            return -1
        return pos[f(NDArr(_obj([self._v._a[i] for i in pos])))]

    def argmin(self):
        return self._arg(mnp.argmin)

    def argmax(self):
        return self._arg(mnp.argmax)

    def rank(self, ascending=True, method="average"):
        allvals = list(self._v)
        vals = [v for v in allvals if not _isnanv(v)]  # missing values keep a missing rank and do not count
        out = []
        for a in allvals:
            if _isnanv(a):
                out.append(mnp.nan)
                continue
            less = 0
            eq = 0
            for b in vals:
                if ascending:
                    if b < a:
                        less += 1
                else:
                    if b > a:
                        less += 1
                if b == a:
                    eq += 1
            out.append(less + Fraction(eq + 1, 2))
        return Series(out, index=self.index, name=self.name)

    def shift(self, periods=1):
        vals = list(self._v)
        n = len(vals)
        p = _b.int(periods)
        if p >= 0:
            out = [mnp.nan] * _b.min(p, n) + vals[: _b.max(n - p, 0)]
        else:
            out = vals[-p:] + [mnp.nan] * _b.min(-p, n)
        return Series(out, index=self.index, name=self.name)

    def _arith(self, o, f):
        if isinstance(o, Series):
            if not self.index.equals(o.index):
                return self._aligned(o, f)
            o = o._v
        return Series(f(self._v, o), index=self.index, name=self.name)

    def _aligned(self, o, f):
        idx = self.index.union(o.index)
        a, b = [], []
        for lab in idx:
            a.append(self.loc[lab] if lab in self.index else mnp.nan)
            b.append(o.loc[lab] if lab in o.index else mnp.nan)
        return Series(f(_arr(a), _arr(b)), index=idx, name=self.name)

    def __add__(self, o):
        return self._arith(o, lambda a, b: a + b)

    def __radd__(self, o):
        return self._arith(o, lambda a, b: b + a)

    def __sub__(self, o):
        return self._arith(o, lambda a, b: a - b)

    def __rsub__(self, o):
        return self._arith(o, lambda a, b: b - a)

    def __mul__(self, o):
        return self._arith(o, lambda a, b: a * b)

    def __rmul__(self, o):
        return self._arith(o, lambda a, b: b * a)

    def __truediv__(self, o):
        return self._arith(o, lambda a, b: a / b)

    def __rtruediv__(self, o):
        return self._arith(o, lambda a, b: b / a)

    def __pow__(self, o):
        return self._arith(o, lambda a, b: a ** b)

    def __neg__(self):
        return Series(-self._v, index=self.index, name=self.name)

    def __abs__(self):
        return Series(mnp.abs(self._v), index=self.index, name=self.name)

    abs = __abs__

    def _cmp(self, o, f):
        if isinstance(o, Series):
            o = o._v
        return Series(f(self._v, o), index=self.index, name=self.name)

    def __lt__(self, o):
        return self._cmp(o, lambda a, b: a < b)

    def __le__(self, o):
        return self._cmp(o, lambda a, b: a <= b)

    def __gt__(self, o):
        return self._cmp(o, lambda a, b: a > b)

    def __ge__(self, o):
        return self._cmp(o, lambda a, b: a >= b)

    def __eq__(self, o):
        return self._cmp(o, lambda a, b: a == b)

    def __ne__(self, o):
        return self._cmp(o, lambda a, b: a != b)

    def __and__(self, o):
        return self._cmp(o, lambda a, b: a & b)

    def __or__(self, o):
        return self._cmp(o, lambda a, b: a | b)

    def __invert__(self):
        return Series(~self._v, index=self.index, name=self.name)

    __hash__ = None

    def __bool__(self):
        raise ValueError("The truth value of a Series is ambiguous.")

    def apply(self, f):
        return Series([f(v) for v in self._v], index=self.index, name=self.name)

    map = apply

    def rolling(self, window, center=False, min_periods=None):
        return _Rolling(self, _b.int(window), center)


class _Rolling:
    def __init__(self, s, window, center):
        self.s, self.w, self.center = s, window, center

    def _apply(self, f):
        vals = list(self.s._v)
        n = len(vals)
        out = []
        for i in _b.range(n):
            if self.center:
                off = (self.w - 1) // 2
                lo, hi = i - (self.w - 1 - off), i + off + 1
                lo, hi = i - self.w // 2, i - self.w // 2 + self.w
            else:
                lo, hi = i - self.w + 1, i + 1
            if lo < 0 or hi > n:
                out.append(mnp.nan)
            else:
                out.append(f(vals[lo:hi]))
        return Series(out, index=self.s.index, name=self.s.name)

    def mean(self):
        return self._apply(mnp._mean)

    def median(self):
        return self._apply(mnp._median)

    def std(self):
        return self._apply(lambda lst: mnp.std(_arr(lst), ddof=1))


class _DFILoc:
    def __init__(self, df):
        self.df = df

    def __getitem__(self, k):
        df = self.df
        if isinstance(k, tuple):
            r, c = k
        else:
            r, c = k, slice(None)
        if isinstance(r, (Index, Series)):
            r = r._v
        colnames = list(df.columns)
        if isinstance(c, (_b.int, SInt)):
            name = colnames[_b.int(c)]
            s = Series(df._cols[name], index=df.index, name=name, _share=True)
            return s.iloc[r] if not (isinstance(r, slice) and r == slice(None)) else s
        sel = [colnames[i] for i in _b.range(len(colnames))][c] if isinstance(c, slice) else [colnames[_b.int(i)] for i in c]
        if isinstance(r, (_b.int, SInt)):
            return Series([df._cols[n][r] for n in sel], index=Index(sel))
        out = DataFrame()
        out.index = df.index[r]
        out.columns = list(sel)
        out._cols = _ColMap((n, df._cols[n][r]) for n in sel)
        return out


class _DFLoc:
    def __init__(self, df):
        self.df = df

    def __getitem__(self, k):
        df = self.df
        if isinstance(k, tuple):
            r, c = k
        else:
            r, c = k, None
        if isinstance(r, slice) and r == slice(None):
            pos = list(_b.range(len(df)))
        else:
            pos = _positions(df.index, r)
        if c is None or (isinstance(c, slice) and c == slice(None)):
            if isinstance(pos, list):
                return df.iloc[pos, :]
            return Series([df._cols[n][pos] for n in df.columns], index=Index(list(df.columns)))
        if isinstance(c, list):
            sub = df[c]
            return sub.iloc[pos, :] if isinstance(pos, list) else sub.loc[r]
        col = df._cols[c]
        if isinstance(pos, list):
            return Series(col[pos], index=df.index[pos], name=c)
        return col[pos]

    def __setitem__(self, k, v):
        r, c = k
        pos = _positions(self.df.index, r) if not (isinstance(r, slice) and r == slice(None)) else slice(None)
        if c not in self.df._cols:
            self.df[c] = [mnp.nan] * len(self.df)
        self.df._cols[c][pos] = v


class _ColMap:
    """label -> column array; labels may be symbolic, so look-ups compare with `_eq` (never hash)"""

    def __init__(self, pairs=()):
        self._k = []
        self._v = []
        for k, v in (pairs.items() if isinstance(pairs, (dict, _ColMap)) else pairs):
            self[k] = v

    def _find(self, k):
        for i, k2 in enumerate(self._k):
            if k2 is k or _eq(k2, k):
                return i
        return None

    def __getitem__(self, k):
        i = self._find(k)
        if i is None:
            raise KeyError(k)
        return self._v[i]

    def __setitem__(self, k, v):
        i = self._find(k)
        if i is None:
            self._k.append(k)
            self._v.append(v)
        else:
            self._v[i] = v

    def __contains__(self, k):
        return self._find(k) is not None

    def items(self):
        return list(zip(self._k, self._v))

    def keys(self):
        return list(self._k)

    def get(self, k, default=None):
        i = self._find(k)
        return default if i is None else self._v[i]


def _inlist(k, lst):
    for k2 in lst:
        if k2 is k or _eq(k2, k):
            return True
    return False


class DataFrame:
    """column store; cells may be any python object"""

    def __init__(self, data=None, index=None, columns=None, dtype=None, copy=False):
        self._cols = _ColMap()
        self.columns = []
        n = 0
        if data is None:
            pass
        elif isinstance(data, DataFrame):
            self._cols = _ColMap((k, v.copy()) for k, v in data._cols.items())
            self.columns = list(data.columns)
            index = data.index if index is None else index
            n = len(data)
        elif isinstance(data, dict):
            for k, v in data.items():
                if isinstance(v, Series):
                    if index is None:
                        index = v.index
                    v = v._v
                arr = _arr(v)
                self._cols[k] = arr.copy()
                self.columns.append(k)
                n = len(arr)
        elif isinstance(data, Series):
            nm = data.name if data.name is not None else 0
            self._cols[nm] = data._v.copy()
            self.columns = [nm]
            index = data.index if index is None else index
            n = len(data)
        elif isinstance(data, list) and data and _b.all(isinstance(r, (Series, dict)) for r in data):
            rows = [_ColMap(zip(list(r.index._v._a), list(r._v._a))) if isinstance(r, Series) else _ColMap(r) for r in data]
            for r in rows:
                for k in r.keys():
                    if not _inlist(k, self.columns):
                        self.columns.append(k)
            # (pandas 2.x keeps the labels in order of first appearance; it does not sort the union)
            for c in self.columns:
                self._cols[c] = _arr1([r.get(c, mnp.nan) for r in rows])
            n = len(rows)
        else:
            a = _obj(data)
            if a.ndim == 1:
                a = a.reshape(-1, 1)
            if a.ndim != 2:
                raise ValueError("Must pass 2-d input")
            n = a.shape[0]
            names = list(columns) if columns is not None else list(_b.range(a.shape[1]))
            if len(names) != a.shape[1]:
                raise ValueError("Shape of passed values does not match columns")
            for j, nm in enumerate(names):
                self._cols[nm] = NDArr(a[:, j].copy())
            self.columns = names
            columns = None
        if columns is not None and not self.columns:
            self.columns = list(columns)
            for c in self.columns:
                self._cols[c] = NDArr(_np.empty(0, dtype=object))
        self.index = _as_index(index, n)
        if self.columns and len(self.index) != n:
            raise ValueError("Length of index does not match number of rows")

    # -- structure
    def fillna(self, value=None, method=None):
        """per column: a scalar for every column, or a Series / dict keyed by the column labels"""
        out = DataFrame()
        out.index = self.index
        for c in self.columns:
            col = Series(self._cols[c], index=self.index, name=c)
            if method is not None:
                r = col.fillna(method=method)
            elif isinstance(value, Series):
                r = col.fillna(value=value.loc[c]) if c in value.index else col
            elif isinstance(value, dict):
                r = col.fillna(value=value[c]) if c in value else col
            else:
                r = col.fillna(value=value)
            out._cols[c] = r._v
            out.columns.append(c)
        return out

    def dropna(self, axis=0, how="any", **kw):
        if axis not in (0, "index") or how != "any" or kw:
            raise ModelGap("DataFrame.dropna with axis/how/subset options")
        keep = [r for r in _b.range(len(self.index)) if not _b.any(_isnanv(self._cols[c]._a[r]) for c in self.columns)]
        return self.iloc[keep]

    def __len__(self):
        return len(self.index)

    @property
    def shape(self):
        return (len(self.index), len(self.columns))

    @property
    def ndim(self):
        return 2

    @property
    def empty(self):
        return len(self.index) == 0 or not self.columns

    @property
    def values(self):
        return self.to_numpy()

    def _mnp_values(self):
        return self.to_numpy()

    def to_numpy(self, **kw):
        if not self.columns:
            return NDArr(_np.empty((len(self.index), 0), dtype=object))
        return mnp.column_stack([self._cols[c] for c in self.columns])

    def copy(self, deep=True):
        return DataFrame(self)

    @property
    def T(self):
        out = DataFrame()
        out.index = Index(list(self.columns)) if self.columns else Index([])
        labs = list(self.index._v._a)
        vals = self.to_numpy()._a
        out.columns = labs
        out._cols = _ColMap((lab, NDArr(vals[i, :].copy())) for i, lab in enumerate(labs))
        return out

    @property
    def columns(self):
        return self._columns

    @columns.setter
    def columns(self, labels):
        if isinstance(labels, Index):
            labels = list(labels._v._a)
        elif hasattr(labels, "_mnp_values") or isinstance(labels, NDArr):
            labels = list(_obj(labels).flat)
        else:
            labels = list(labels)
        old = getattr(self, "_columns", None)
        cm = getattr(self, "_cols", None)
        if old and cm is not None and cm.keys():
            if len(labels) != len(old):
                raise ValueError("Length mismatch: Expected axis has %d elements, new values have %d elements" % (len(old), len(labels)))
            self._cols = _ColMap((new, cm[o]) for o, new in zip(old, labels))
        self._columns = labels

    @property
    def iloc(self):
        return _DFILoc(self)

    @property
    def loc(self):
        return _DFLoc(self)

    def __getitem__(self, k):
        if isinstance(k, list):
            out = DataFrame()
            out.index = self.index
            out.columns = list(k)
            out._cols = _ColMap((c, self._cols[c]) for c in k)
            return out
        if isinstance(k, (Series, NDArr)):
            pos = _positions(self.index, k)
            return self.iloc[pos, :]
        if k not in self._cols:
            raise KeyError(k)
        return Series(self._cols[k], index=self.index, name=k, _share=True)

    def __setitem__(self, k, v):
        if isinstance(v, Series):
            v = v._v
        if not _is_seq(v):
            v = [v] * len(self.index)
        arr = _arr(v).copy()
        if not self.columns and len(self.index) == 0:
            self.index = RangeIndex(len(arr))
        if len(arr) != len(self.index):
            raise ValueError("Length of values does not match length of index")
        if k not in self._cols:
            self.columns.append(k)
        self._cols[k] = arr

    def __contains__(self, k):
        return k in self._cols

    def __iter__(self):
        return iter(self.columns)

    def items(self):
        for c in self.columns:
            yield c, self[c]

    iteritems = items

    def iterrows(self):
        for i, lab in enumerate(self.index):
            yield lab, self.iloc[i, :]

    def __repr__(self):
        return "DataFrame(%s, index=%s)" % ({c: self._cols[c]._a.tolist() for c in self.columns}, self.index)

    def append(self, row, ignore_index=False):
        if isinstance(row, Series):
            row = dict(zip(list(row.index._v._a), list(row._v._a)))
        if isinstance(row, DataFrame):
            out = DataFrame()
            out.columns = list(self.columns) + [c for c in row.columns if not _inlist(c, self.columns)]
            for c in out.columns:
                a = list(self._cols[c]._a) if c in self._cols else [mnp.nan] * len(self)
                b = list(row._cols[c]._a) if c in row._cols else [mnp.nan] * len(row)
                out._cols[c] = _arr1(a + b)
            out.index = RangeIndex(len(self) + len(row)) if ignore_index else Index(list(self.index._v._a) + list(row.index._v._a))
            return out
        out = DataFrame()
        out.columns = list(self.columns) + [k for k in row if not _inlist(k, self.columns)]
        n = len(self)
        for c in out.columns:
            old = list(self._cols[c]._a) if c in self._cols else [mnp.nan] * n
            out._cols[c] = _arr1(old + [row.get(c, mnp.nan)])
        out.index = RangeIndex(n + 1)
        return out

    def drop(self, labels=None, columns=None, axis=0):
        if columns is None and axis == 1:
            columns = labels
        if columns is None:
            raise ModelGap("DataFrame.drop rows")
        if isinstance(columns, str):
            columns = [columns]
        for c in columns:
            if c not in self._cols:
                raise KeyError(c)
        return self[[c for c in self.columns if c not in columns]]

    def filter(self, items=None, axis=None, **kw):
        return self[[c for c in items if c in self._cols]]

    def add_prefix(self, p):
        out = DataFrame()
        out.index = self.index
        out.columns = [p + str(c) for c in self.columns]
        out._cols = _ColMap((p + str(c), self._cols[c]) for c in self.columns)
        return out

    def rename(self, columns=None, **kw):
        out = DataFrame()
        out.index = self.index
        m = columns if callable(columns) else (lambda c: columns.get(c, c))
        out.columns = [m(c) for c in self.columns]
        out._cols = _ColMap((m(c), self._cols[c]) for c in self.columns)
        return out

    def combine_first(self, other):
        if other is None:
            return self
        out = DataFrame()
        cols = list(self.columns) + [c for c in other.columns if not _inlist(c, self.columns)]
        first = None
        for c in cols:
            a = self[c] if c in self._cols else Series([mnp.nan] * len(self), index=self.index)
            b = other[c] if c in other._cols else Series([mnp.nan] * len(other), index=other.index)
            s = a.combine_first(b)
            out._cols[c] = s._v
            first = s if first is None else first
        out.columns = cols
        out.index = first.index if first is not None else self.index.union(other.index)
        return out

    def _rowwise(self, f):
        return Series([f([self._cols[c][i] for c in self.columns]) for i in _b.range(len(self))], index=self.index)

    def _colwise(self, f, numeric_only=True):
        names = [c for c in self.columns if not numeric_only or _b.all(_numeric(v) for v in self._cols[c]._a)]
        return Series([f(list(self._cols[c]._a)) for c in names], index=Index(names))

    def _agg(self, axis, f):
        if axis in (1, "columns"):
            return self._rowwise(f)
        return self._colwise(f)

    def mean(self, axis=0):
        return self._agg(axis, lambda l: mnp._mean([v for v in l if not _isnanv(v)]))

    def median(self, axis=0):
        return self._agg(axis, lambda l: mnp._median([v for v in l if not _isnanv(v)]))

    def min(self, axis=0):
        return self._agg(axis, lambda l: mnp._fold(l, mnp._min1))

    def max(self, axis=0):
        return self._agg(axis, lambda l: mnp._fold(l, mnp._max1))

    def sum(self, axis=0):
        return self._agg(axis, mnp._sum)

    def __mul__(self, o):
        """frame * scalar, or frame * 1-D array aligned with the columns (numpy broadcasting along rows)"""
        out = DataFrame()
        out.index = self.index
        if isinstance(o, (DataFrame, Series)):
            raise ModelGap("DataFrame * labelled operand")
        if mnp._is_arraylike(o):
            w = list(_obj(o).flat)
            if len(w) != len(self.columns):
                raise ValueError("Unable to coerce to Series, length must be %d: given %d" % (len(self.columns), len(w)))
        else:
            w = [o] * len(self.columns)
        for c, wc in zip(self.columns, w):
            out._cols[c] = self._cols[c] * wc
            out.columns.append(c)
        return out

    __rmul__ = __mul__
    __array_priority__ = 1000

    def astype(self, t):
        out = DataFrame()
        out.index, out.columns = self.index, list(self.columns)
        out._cols = _ColMap((c, self._cols[c].astype(t)) for c in self.columns)
        return out

    def isna(self):
        out = DataFrame()
        out.index, out.columns = self.index, list(self.columns)
        out._cols = _ColMap((c, mnp.isnan(self._cols[c])) for c in self.columns)
        return out

    def equals(self, o):
        return isinstance(o, DataFrame) and self.columns == o.columns and self.index.equals(o.index) and _b.all(mnp.array_equal(self._cols[c], o._cols[c]) for c in self.columns)

    def squeeze(self, axis=None):
        if len(self.columns) == 1:
            return self[self.columns[0]]
        return self

    __hash__ = None


def _numeric(v):
    return is_sym(v) or isinstance(v, (_b.int, _b.float, Fraction, _np.number))


def _is_seq(v):
    return isinstance(v, (list, tuple, NDArr, _np.ndarray, Index)) or hasattr(v, "_mnp_values")


def _arr1(lst):
    a = _np.empty(len(lst), dtype=object)
    for i, v in enumerate(lst):
        a[i] = v
    return NDArr(a)


tseries = types.SimpleNamespace(offsets=types.SimpleNamespace(DateOffset=DateOffset, BaseOffset=type("BaseOffset", (), {})))


def concat(objs, axis=0, ignore_index=False, keys=None, **kw):
    objs = list(objs)
    if axis in (1, "columns"):
        out = DataFrame()
        first = objs[0]
        out.index = first.index
        if not _b.all(o.index.equals(first.index) for o in objs[1:]):
            # outer join on the row labels (pandas' default): the union of the labels, NaN where an object has none
            if not _b.all(isinstance(o, Series) and o.index.is_unique for o in objs):
                raise ModelGap("concat(axis=1) of differently indexed frames / duplicate labels")
            uni = first.index
            for o in objs[1:]:
                uni = uni.union(o.index)
            objs = [Series([o._v[o.index.get_loc(lab)] if lab in o.index else mnp.nan for lab in uni], index=uni, name=o.name) for o in objs]
            out.index = uni
        for j, o in enumerate(objs):
            if isinstance(o, Series):
                nm = keys[j] if keys is not None else (o.name if o.name is not None else j)
                while nm in out._cols:
                    nm = (nm, j)
                out._cols[nm] = o._v
                out.columns.append(nm)
            else:
                for c in o.columns:
                    out._cols[c] = o._cols[c]
                    out.columns.append(c)
        return out
    out = objs[0]
    for o in objs[1:]:
        out = out.append(o, ignore_index=ignore_index)
    return out


def isna(x):
    if isinstance(x, (Series, DataFrame)):
        return x.isna()
    return mnp.isnan(x)


isnull = isna


def _dtype_kind(x):
    dt = getattr(x, "dtype", x)
    return getattr(dt, "kind", None) if not isinstance(dt, str) else {"int": "i", "int64": "i", "float": "f", "float64": "f", "bool": "b", "object": "O"}.get(dt)


api = types.SimpleNamespace(
    types=types.SimpleNamespace(
        is_integer_dtype=lambda x: _dtype_kind(x) == "i",
        is_float_dtype=lambda x: _dtype_kind(x) == "f",
        is_numeric_dtype=lambda x: _dtype_kind(x) in ("i", "f", "b"),
        is_bool_dtype=lambda x: _dtype_kind(x) == "b",
        is_object_dtype=lambda x: _dtype_kind(x) == "O",
        is_scalar=lambda x: not hasattr(x, "__len__") or isinstance(x, str),
    )
)


def __getattr__(name):
    if name.startswith("__"):
        raise AttributeError(name)
    raise ModelGap("pandas model has no attribute %r" % name)
