"""Dynamic symbolic execution engine: z3-backed scalars + forking by re-execution.

The repository code runs unmodified on `SInt`/`SReal`/`SBool` values.  Whenever Python needs a
concrete truth value / index / hash, the engine asks z3 which outcomes are feasible under the
current path condition, takes one and queues the others as *decision prefixes*; a queued prefix is
explored by re-running the harness from the start and replaying the recorded decisions.
"""
import os
import time
from fractions import Fraction

import z3

MAX_CONCRETIZE = 64


class Abort(BaseException):
    """The current path is infeasible / an assumption failed (not an error)."""


class Inconclusive(BaseException):
    """Solver said unknown / model gap / budget exceeded: the run cannot decide."""


class NoModel(Inconclusive):
    """feasibility of a nonlinear path could not be decided, so no model is at hand"""


class ModelGap(Inconclusive):
    """The numpy/pandas model does not implement what the code asked for."""


class Stats:
    def __init__(self):
        self.queries = 0
        self.solver_s = 0.0
        self.paths = 0
        self.aborted = 0
        self.decisions = 0
        self.obligations = 0
        self.discharged = 0
        self.labels = {}  # label -> evaluations

    def as_dict(self):
        return dict(vars(self))


# ---------------------------------------------------------------- second solver (cvc5 binary) on sampled obligations
CROSS = {"every": int(os.environ.get("VF_CROSS_EVERY", "0") or 0), "cap": int(os.environ.get("VF_CROSS_CAP", "60") or 60), "n": 0, "seen": 0,
         "agree": 0, "unknown": 0, "disagree": 0, "seconds": 0.0, "disagreements": []}


def cross_check(constraints, label):
    """Re-decide an obligation z3 has just proved (`constraints` unsatisfiable) with the cvc5 binary.  Sampled: every
    VF_CROSS_EVERY-th proved obligation, at most VF_CROSS_CAP per cell.  cvc5 `sat` is a disagreement (reported by the
    runner as inconclusive), `unknown` / timeout is counted, never treated as agreement."""
    if not CROSS["every"]:
        return
    CROSS["seen"] += 1
    if (CROSS["seen"] > 2 and CROSS["seen"] % CROSS["every"]) or CROSS["n"] >= CROSS["cap"]:
        return  # (the first two solver-decided obligations of a cell are always re-checked, then every N-th)
    import subprocess
    import tempfile

    CROSS["n"] += 1
    sv = z3.Solver()
    for c in constraints:
        sv.add(c)
    body = sv.to_smt2()
    t = time.time()
    with tempfile.NamedTemporaryFile("w", suffix=".smt2", delete=False) as fh:
        fh.write("(set-logic ALL)\n" + body)
        path = fh.name
    try:
        r = subprocess.run(["cvc5", "--lang=smt2", "--tlimit=5000", path], stdout=subprocess.PIPE, stderr=subprocess.STDOUT, text=True, timeout=20)
        ans = (r.stdout.strip().splitlines() or ["unknown"])[0].strip()
        if "(error" in r.stdout:
            ans = "unknown"
    except Exception:  # noqa
        ans = "unknown"
    finally:
        try:
            os.unlink(path)
        except OSError:
            pass
    CROSS["seconds"] += time.time() - t
    if ans == "unsat":
        CROSS["agree"] += 1
    elif ans == "sat":
        CROSS["disagree"] += 1
        CROSS["disagreements"].append({"label": label, "smt2": body[:4000]})
    else:
        CROSS["unknown"] += 1


class Violation:
    def __init__(self, label, model, detail=None):
        self.label = label
        self.model = model
        self.detail = detail or {}


class Ctx:
    """One path of one exploration."""

    cur = None

    def __init__(self, log, stats, prove_timeout_ms=60000):
        self.log = log
        self.pos = 0
        self.solver = z3.Solver()
        self.stats = stats
        self.pending = []
        self.path = []
        self.nfresh = 0
        self._model = None
        self.violations = []
        self.inputs = {}
        self.prove_timeout_ms = prove_timeout_ms
        self.notes = []
        self.vacuity_probe = False
        self.nonlinear = False
        self._last_model = None
        self.sqrt_seen = {}

    # ---------------------------------------------------------------- solver plumbing
    def _check(self, *extra):
        if self.nonlinear:
            # nonlinear path: z3 does not use nlsat incrementally (and may ignore its timeout there), so
            # feasibility is decided in a fresh solver, with the guided search as a fall-back for `sat`
            goal = self.path + list(extra)
            r, m = solve_fresh(goal, 10000, self.stats)
            if r == "unknown":
                m = guided_sat(goal, self.stats, attempts=100, budget_s=8.0)
                if m is None:
                    # undecided: over-approximate as feasible.  Sound for the verdict: obligations on an infeasible
                    # path are discharged vacuously (path && !cond is unsat) -- the price is wasted exploration.
                    self.stats.undecided_feasibility = getattr(self.stats, "undecided_feasibility", 0) + 1
                    self._last_model = None
                    self._no_model = True
                    return True
                r = "sat"
            self._last_model = m
            self._no_model = False
            return r == "sat"
        t = time.time()
        r = self.solver.check(*extra)
        self.stats.solver_s += time.time() - t
        self.stats.queries += 1
        if r == z3.unknown:
            raise Inconclusive("solver unknown on feasibility query: %s" % self.solver.reason_unknown())
        if r == z3.sat:
            self._last_model = None
        return r == z3.sat

    def add(self, c):
        self.solver.add(c)
        self.path.append(c)

    def model(self):
        if self._model is None:
            if not self._check():
                raise Abort()
            if getattr(self, "_no_model", False) and self._last_model is None:
                raise NoModel("no model available (nonlinear feasibility undecided)")
            self._model = self._last_model if self._last_model is not None else self.solver.model()
        return self._model

    def _holds_in_model(self, c):
        try:
            m = self.model()
        except NoModel:
            return None
        v = m.eval(c, model_completion=True)
        if z3.is_true(v):
            return True
        if z3.is_false(v):
            return False
        return None

    def assume(self, c):
        c = unwrap(c)
        if c is True:
            return
        if c is False:
            raise Abort()
        if self.pos < len(self.log):
            # replaying: feasibility was established the first time round
            self.add(c)
            self._model = None
            return
        h = self._holds_in_model(c)
        self.add(c)
        if h is True:
            return
        self._model = None
        if not self._check():
            raise Abort()
        if not (getattr(self, "_no_model", False) and self._last_model is None):
            self._model = self._last_model if self._last_model is not None else self.solver.model()

    def branch(self, cond):
        """Decide a symbolic boolean; forks when both outcomes are feasible."""
        cond = z3.simplify(cond)
        if z3.is_true(cond):
            return True
        if z3.is_false(cond):
            return False
        self.stats.decisions += 1
        if self.pos < len(self.log):
            d = self.log[self.pos]
            assert d is True or d is False, "replay desync (expected bool decision, got %r)" % (d,)
            self.pos += 1
            self.add(cond if d else z3.Not(cond))
            self._model = None
            return d
        h = self._holds_in_model(cond)
        if h is None:
            h = self._check(cond)
            self._model = None
        other = z3.Not(cond) if h else cond
        if self._check(other):
            self.pending.append(self.log[: self.pos] + [not h])
        self.log.append(h)
        self.pos += 1
        self.add(cond if h else z3.Not(cond))
        return h

    def concretize(self, expr):
        """Fork over the feasible integer values of `expr`."""
        expr = z3.simplify(expr)
        if z3.is_int_value(expr):
            return expr.as_long()
        tried = 0
        while True:
            if self.pos < len(self.log):
                ent = self.log[self.pos]
                assert isinstance(ent, tuple), "replay desync (expected value decision)"
                _, val, taken = ent
                self.pos += 1
                self.add(expr == val if taken else expr != val)
                self._model = None
                if taken:
                    return val
                tried += 1
                continue
            if tried >= MAX_CONCRETIZE:
                raise Inconclusive("unbounded concretisation of %s (harness forgot a bound)" % expr)
            m = self.model()
            val = m.eval(expr, model_completion=True).as_long()
            if self._check(expr != val):
                self.pending.append(self.log[: self.pos] + [("v", val, False)])
            self.log.append(("v", val, True))
            self.pos += 1
            self.add(expr == val)
            self.stats.decisions += 1
            return val

    def concretize_real(self, expr):
        expr = z3.simplify(expr)
        if z3.is_rational_value(expr):
            return float(Fraction(expr.numerator_as_long(), expr.denominator_as_long()))
        if self.pos < len(self.log):
            ent = self.log[self.pos]
            assert isinstance(ent, tuple) and ent[0] == "r", "replay desync (expected real concretisation)"
            self.pos += 1
            val = ent[1]
        else:
            m = self.model()
            v = m.eval(expr, model_completion=True)
            if z3.is_algebraic_value(v):
                v = v.approx(20)
            if not z3.is_rational_value(v):
                raise ModelGap("float() of a symbolic real without a rational model value")
            val = Fraction(float(Fraction(v.numerator_as_long(), v.denominator_as_long())))
            used = self.__dict__.setdefault("_used_reals", set())
            # prefer pairwise distinct representatives (an all-equal assignment hides re-ordering / shifting defects)
            cand = val
            for k in range(1, 8):
                if cand not in used:
                    break
                cand = val + Fraction(3 * k + len(used) % 5, 4)
            if cand != val and cand not in used and self._check(expr == z3.RealVal(cand)):
                val = cand
            elif not self._check(expr == z3.RealVal(val)):
                raise ModelGap("float() of a symbolic real: representative value infeasible")
            used.add(val)
            self.log.append(("r", val))
            self.pos += 1
        self.add(expr == z3.RealVal(val))
        self._model = None
        self.stats.concolic = getattr(self.stats, "concolic", 0) + 1
        return float(val)

    # ---------------------------------------------------------------- fresh symbols
    def _name(self, name):
        self.nfresh += 1
        return name

    def fresh_int(self, name):
        return SInt(z3.Int(self._name(name)))

    def fresh_real(self, name):
        return SReal(z3.Real(self._name(name)))

    def fresh_bool(self, name):
        return SBool(z3.Bool(self._name(name)))

    def aux_real(self, prefix):
        self.nfresh += 1
        return z3.Real("%s!%d" % (prefix, self.nfresh))

    # ---------------------------------------------------------------- obligations
    def prove(self, cond, label, detail=None):
        """Obligation: `cond` holds for every value on this path.  Returns True if proved."""
        self.stats.labels[label] = self.stats.labels.get(label, 0) + 1
        self.stats.obligations += 1
        self.n_prove = getattr(self, "n_prove", 0) + 1
        if self.vacuity_probe:
            cond = False
        cond = unwrap(cond)
        if cond is True:
            self.stats.discharged += 1
            return True
        if cond is False:
            m = self.model()
            self.violations.append(Violation(label, m, detail))
            return False
        if cond is not True and cond is not False and not z3.is_expr(cond):
            cond = bool(cond)
            if cond:
                self.stats.discharged += 1
                return True
            self.violations.append(Violation(label, self.model(), detail))
            return False
        if not self.nonlinear:
            # linear path: the path's incremental solver decides the obligation under an assumption
            t = time.time()
            r = self.solver.check(z3.Not(cond))
            self.stats.solver_s += time.time() - t
            self.stats.queries += 1
            if r == z3.unsat:
                self.stats.discharged += 1
                cross_check(list(self.path) + [z3.Not(cond)], label)
                return True
            if r == z3.sat:
                self.violations.append(Violation(label, self.solver.model(), detail))
                return False
        r, m = discharge(self.path, cond, self.prove_timeout_ms, self.stats)
        if r == "unsat":
            self.stats.discharged += 1
            cross_check(list(self.path) + [z3.Not(cond)], label)
            return True
        if r == "sat":
            self.violations.append(Violation(label, m, detail))
            return False
        raise Inconclusive("solver unknown on obligation %s" % label)


def solve_fresh(constraints, timeout_ms, stats=None):
    """Discharge in a fresh, non-incremental solver (z3's nlsat is not used incrementally)."""
    t = time.time()
    s = z3.Solver()
    s.set("timeout", timeout_ms)
    for c in constraints:
        s.add(c)
    r = s.check()
    if stats is not None:
        stats.solver_s += time.time() - t
        stats.queries += 1
    if r == z3.sat:
        return "sat", s.model()
    if r == z3.unsat:
        return "unsat", None
    return "unknown", None


_R = z3.RealSort()
_I = z3.IntSort()
UF_MUL = z3.Function("vf_mul", _R, _R, _R)
UF_DIV = z3.Function("vf_div", _R, _R, _R)
UF_IMUL = z3.Function("vf_imul", _I, _I, _I)
UF_IDIV = z3.Function("vf_idiv", _I, _I, _I)
UF_IMOD = z3.Function("vf_imod", _I, _I, _I)


class _Canon:
    """semantic canonicaliser for the arguments of abstracted products / quotients / function applications:
    two argument terms that are *valid-equal* (checked by a small solver query on their own abstraction) are
    replaced by one representative, so that congruence becomes syntactic for the final query."""

    def __init__(self):
        self.reps = {}
        self.vars = {}
        self.solver = z3.Solver()
        self.solver.set("timeout", 2000)
        self.checks = 0

    def fv(self, e):
        k = e.get_id()
        r = self.vars.get(k)
        if r is None:
            if z3.is_const(e):
                r = frozenset() if _isnum(e) or e.decl().kind() != z3.Z3_OP_UNINTERPRETED else frozenset([k])
            else:
                r = frozenset()
                for c in e.children():
                    r = r | self.fv(c)
            self.vars[k] = r
        return r

    def canon(self, a):
        if _isnum(a) or z3.is_const(a):
            return a
        key = (self.fv(a), a.sort().kind())
        lst = self.reps.setdefault(key, [])
        for rep in lst:
            if rep.get_id() == a.get_id():
                return rep
        for rep in lst[:12]:
            self.checks += 1
            if self.solver.check(a != rep) == z3.unsat:
                return rep
        lst.append(a)
        return a


def abstract_nl(e, memo, canon=None):
    """replace symbolic*symbolic products and symbolic divisors by uninterpreted functions with canonically
    ordered (and semantically canonicalised) arguments; unsat of the abstraction implies unsat over the
    reals/integers"""
    k = e.get_id()
    r = memo.get(k)
    if r is not None:
        return r
    if not z3.is_app(e) or e.num_args() == 0:
        memo[k] = e
        return e
    kind = e.decl().kind()
    args = [abstract_nl(c, memo, canon) for c in e.children()]
    cz = (lambda a: canon.canon(a)) if canon is not None else (lambda a: a)
    if kind == z3.Z3_OP_MUL:
        nums = [a for a in args if _isnum(a)]
        rest = [a for a in args if not _isnum(a)]
        if len(rest) >= 2:
            rest = sorted((cz(a) for a in rest), key=lambda a: a.get_id())
            isint = z3.is_int(rest[0])
            F = UF_IMUL if isint else UF_MUL
            m = rest[0]
            for a in rest[1:]:
                m = F(m, a)
            r = m
            for c in nums:
                r = c * r
        else:
            r = e.decl()(*args)
    elif kind == z3.Z3_OP_DIV and not _isnum(args[1]):
        r = UF_DIV(cz(args[0]), cz(args[1]))
    elif kind == z3.Z3_OP_IDIV and not _isnum(args[1]):
        r = UF_IDIV(cz(args[0]), cz(args[1]))
    elif kind == z3.Z3_OP_MOD and not _isnum(args[1]):
        r = UF_IMOD(cz(args[0]), cz(args[1]))
    elif kind == z3.Z3_OP_POWER:
        if _isnum(args[1]) and z3.is_int_value(z3.simplify(args[1])) and 2 <= z3.simplify(args[1]).as_long() <= 6:
            n = z3.simplify(args[1]).as_long()
            F = UF_IMUL if z3.is_int(args[0]) else UF_MUL
            a0 = cz(args[0])
            r = a0
            for _ in range(n - 1):
                r = F(r, a0) if r.get_id() <= a0.get_id() else F(a0, r)
        else:
            r = e.decl()(*args)
    elif kind == z3.Z3_OP_UNINTERPRETED:
        r = e.decl()(*[cz(a) for a in args])
    else:
        try:
            r = e.decl()(*args)
        except Exception:
            r = e
    memo[k] = r
    return r


def discharge(path, cond, timeout_ms, stats=None):
    """unsat / sat(model) / unknown for  path && !cond.
    1. abstraction (products/quotients uninterpreted, QF_UFLIRA) -- unsat there is sound;
    2. the full nonlinear query in a fresh solver."""
    memo = {}
    goal = list(path) + [z3.Not(cond)]
    t = time.time()
    try:
        canon = _Canon()
        abs_goal = [abstract_nl(c, memo, canon) for c in goal]
        s = z3.Solver()
        s.set("timeout", min(timeout_ms, 20000))
        for c in abs_goal:
            s.add(c)
        r = s.check()
    except Exception:
        r = z3.unknown
    if stats is not None:
        stats.solver_s += time.time() - t
        stats.queries += 1
    if r == z3.unsat:
        if stats is not None:
            stats.abstraction_proved = getattr(stats, "abstraction_proved", 0) + 1
        return "unsat", None
    r, m = solve_fresh(goal, min(timeout_ms, 8000), stats)
    if r != "unknown":
        return r, m
    # the nonlinear query was not decided quickly: look for a counterexample of a *strengthened* (linearised)
    # query -- variables in nonlinear positions are fixed to grid values; `sat` there is a model of the original
    m = guided_sat(goal, stats)
    if m is not None:
        return "sat", m
    if timeout_ms > 8000:
        return solve_fresh(goal, timeout_ms, stats)
    return "unknown", None


def _vars_of(e, memo):
    k = e.get_id()
    r = memo.get(k)
    if r is None:
        if z3.is_const(e):
            r = {}
            if not _isnum(e) and e.decl().kind() == z3.Z3_OP_UNINTERPRETED and (z3.is_real(e) or z3.is_int(e)):
                r = {k: e}
        else:
            r = {}
            for c in e.children():
                r.update(_vars_of(c, memo))
        memo[k] = r
    return r


def _nl_vars(e, memo, vmemo, out):
    k = e.get_id()
    if k in memo:
        return
    memo[k] = True
    if not z3.is_app(e) or e.num_args() == 0:
        return
    kind = e.decl().kind()
    ch = e.children()
    if kind == z3.Z3_OP_MUL:
        rest = [a for a in ch if not _isnum(a)]
        if len(rest) >= 2:
            rest.sort(key=lambda a: len(_vars_of(a, vmemo)))
            for a in rest[:-1]:
                out.update(_vars_of(a, vmemo))
    elif kind in (z3.Z3_OP_DIV, z3.Z3_OP_IDIV, z3.Z3_OP_MOD) and not _isnum(ch[1]):
        out.update(_vars_of(ch[1], vmemo))
    elif kind == z3.Z3_OP_POWER:
        out.update(_vars_of(ch[0], vmemo))
    elif kind == z3.Z3_OP_UNINTERPRETED and e.decl().name() in ("vf_sqrt",):
        for a in ch:
            out.update(_vars_of(a, vmemo))
    for c in ch:
        _nl_vars(c, memo, vmemo, out)


def guided_sat(goal, stats=None, attempts=300, budget_s=20.0):
    import random

    vmemo, out = {}, {}
    seen = {}
    for c in goal:
        _nl_vars(c, seen, vmemo, out)
    allv = {}
    for c in goal:
        allv.update(_vars_of(c, vmemo))
    rng = random.Random(len(goal) * 7919 + len(out))
    grid = [Fraction(k, 8) for k in range(-40, 41) if k != 0]
    t_start = time.time()
    for i in range(attempts):
        if time.time() - t_start > budget_s:
            break
        plan = out if (i % 2 == 0 and out) else allv
        fix = []
        for v in plan.values():
            if z3.is_int(v):
                fix.append(v == rng.randint(-3, 6))
            else:
                fix.append(v == z3.RealVal(rng.choice(grid)))
        t = time.time()
        s = z3.Solver()
        s.set("timeout", 2000)
        for c in goal:
            s.add(c)
        for c in fix:
            s.add(c)
        r = s.check()
        if stats is not None:
            stats.solver_s += time.time() - t
            stats.queries += 1
        if r == z3.sat:
            return s.model()
    return None


# -------------------------------------------------------------------- value wrappers
def unwrap(x):
    if isinstance(x, (SInt, SReal, SBool)):
        return x.e
    return x


def wrap(e):
    if isinstance(e, (SInt, SReal, SBool)):
        return e
    if z3.is_expr(e):
        e = z3.simplify(e)
        if z3.is_bool(e):
            if z3.is_true(e):
                return True
            if z3.is_false(e):
                return False
            return SBool(e)
        if z3.is_int(e):
            if z3.is_int_value(e):
                return e.as_long()
            return SInt(e)
        if z3.is_real(e):
            if z3.is_rational_value(e):
                return Fraction(e.numerator_as_long(), e.denominator_as_long())
            return SReal(e)
    return e


_CTX = z3.main_ctx().ref()
_IV = {}
_RV = {}


def _ival(n):
    v = _IV.get(n)
    if v is None:
        v = z3.IntVal(n)
        if -4096 <= n <= 4096:
            _IV[n] = v
    return v


def _rval(q):
    v = _RV.get(q)
    if v is None:
        v = z3.RealVal(q)
        if len(_RV) < 4096:
            _RV[q] = v
    return v


def _wrap_k(e, kind):
    """simplify + wrap with a statically known result kind ('i', 'r', 'b') -- avoids sort look-ups"""
    e = z3.simplify(e)
    ast = e.as_ast()
    if kind == "b":
        v = z3.Z3_get_bool_value(_CTX, ast)
        if v == z3.Z3_L_TRUE:
            return True
        if v == z3.Z3_L_FALSE:
            return False
        return SBool(e)
    if z3.Z3_is_numeral_ast(_CTX, ast):
        if kind == "i":
            return e.as_long()
        return Fraction(e.numerator_as_long(), e.denominator_as_long())
    return SInt(e) if kind == "i" else SReal(e)


def _zk(x):
    """python/symbolic scalar -> (z3 term, 'i' | 'r') or (None, None)"""
    t = type(x)
    if t is SInt:
        return x.e, "i"
    if t is SReal:
        return x.e, "r"
    if t is int:
        return _ival(x), "i"
    if t is Fraction:
        return _rval(x), "r"
    if t is bool:
        return _ival(int(x)), "i"
    if t is float:
        if x != x or x in (float("inf"), float("-inf")):
            return None, None
        return _rval(Fraction(x)), "r"
    if t is SBool:
        return z3.If(x.e, _ival(1), _ival(0)), "i"
    e = _z(x)
    if e is NotImplemented:
        return None, None
    return e, ("i" if z3.is_int(e) else "r")


def _z(x):
    """python/symbolic scalar -> z3 arithmetic term (NotImplemented if not a number)."""
    if isinstance(x, (SInt, SReal)):
        return x.e
    if isinstance(x, SBool):
        return z3.If(x.e, z3.IntVal(1), z3.IntVal(0))
    if isinstance(x, bool):
        return z3.IntVal(int(x))
    if isinstance(x, int):
        return z3.IntVal(x)
    if isinstance(x, Fraction):
        return z3.RealVal(x)
    if isinstance(x, float):
        if x != x or x in (float("inf"), float("-inf")):
            return NotImplemented
        return z3.RealVal(Fraction(x))
    import numpy as _np

    if isinstance(x, _np.bool_):
        return z3.IntVal(int(x))
    if isinstance(x, _np.integer):
        return z3.IntVal(int(x))
    if isinstance(x, _np.floating):
        x = float(x)
        if x != x or x in (float("inf"), float("-inf")):
            return NotImplemented
        return z3.RealVal(Fraction(x))
    return NotImplemented


def _isnan(o):
    if isinstance(o, float):
        return o != o
    import numpy as _np

    return isinstance(o, _np.floating) and bool(o != o)


def zreal(x):
    e = _z(x)
    if e is NotImplemented:
        raise ModelGap("not a number: %r" % (x,))
    return z3.ToReal(e) if z3.is_int(e) else e


def _zb(x):
    if isinstance(x, SBool):
        return x.e
    if isinstance(x, (SInt, SReal)):
        return x.e != 0
    return z3.BoolVal(bool(x))


def _mix(a, b):
    if z3.is_int(a) and not z3.is_int(b):
        a = z3.ToReal(a)
    elif z3.is_int(b) and not z3.is_int(a):
        b = z3.ToReal(b)
    return a, b


def _isnum(e):
    return z3.Z3_is_numeral_ast(_CTX, e.as_ast())


def _flag_nl():
    if Ctx.cur is not None:
        Ctx.cur.nonlinear = True


def _mul(a, b):
    if not _isnum(a) and not _isnum(b):
        a2, b2 = z3.simplify(a), z3.simplify(b)
        if not _isnum(a2) and not _isnum(b2):
            _flag_nl()
    return a * b


def _add(a, b):
    return a + b


def _sub(a, b):
    return a - b


def _lt(a, b):
    return a < b


def _le(a, b):
    return a <= b


def _gt(a, b):
    return a > b


def _ge(a, b):
    return a >= b


def _eq(a, b):
    return a == b


def _ne(a, b):
    return a != b


def _rdiv(a, b):
    """true division of two real-sorted terms"""
    if not z3.Z3_is_numeral_ast(_CTX, b.as_ast()):
        _flag_nl()
    return a / b


def _tdiv(a, b):
    if not _isnum(b) and not _isnum(z3.simplify(b)):
        _flag_nl()
    if z3.is_int(a):
        a = z3.ToReal(a)
    if z3.is_int(b):
        b = z3.ToReal(b)
    return a / b


def _floordiv(a, b):
    if not _isnum(b):
        _flag_nl()
    if z3.is_int(a) and z3.is_int(b):
        if z3.is_int_value(b):
            bv = b.as_long()
            if bv > 0:
                return a / b
            if bv < 0:
                return (-a) / (-b)
            raise ZeroDivisionError("integer division or modulo by zero")
        return z3.If(b > 0, a / b, (-a) / (-b))
    a, b = _mix(a, b)
    q = _tdiv(a, b)
    return z3.ToReal(z3.ToInt(q))  # floor for reals (ToInt is floor in z3)


def _mod(a, b):
    if z3.is_int(a) and z3.is_int(b):
        return a - b * _floordiv(a, b)
    a, b = _mix(a, b)
    return a - b * _floordiv(a, b)


class SBool:
    __slots__ = ("e",)

    def __init__(self, e):
        self.e = e

    def __deepcopy__(self, memo):
        return self

    def __copy__(self):
        return self

    def __bool__(self):
        return Ctx.cur.branch(self.e)

    def __invert__(self):
        # python semantics of ~ on a *bool* is integer complement (~True == -2); numpy's bool_ is
        # logical not.  Values produced by array comparisons are numpy-like, harness flags that
        # stand for python bools are created with PyBool below.
        return wrap(z3.Not(self.e))

    def __and__(self, o):
        return wrap(z3.And(self.e, _zb(o)))

    __rand__ = __and__

    def __or__(self, o):
        return wrap(z3.Or(self.e, _zb(o)))

    __ror__ = __or__

    def __xor__(self, o):
        return wrap(z3.Xor(self.e, _zb(o)))

    __rxor__ = __xor__

    def _asint(self):
        return wrap(z3.If(self.e, z3.IntVal(1), z3.IntVal(0)))

    def __add__(self, o):
        return self._asint() + o

    __radd__ = __add__

    def __sub__(self, o):
        return self._asint() - o

    def __rsub__(self, o):
        return o - self._asint()

    def __mul__(self, o):
        return self._asint() * o

    __rmul__ = __mul__

    def __eq__(self, o):
        if isinstance(o, (SBool, bool)):
            return wrap(self.e == _zb(o))
        return self._asint() == o

    def __ne__(self, o):
        r = self.__eq__(o)
        return (not r) if isinstance(r, bool) else ~r

    __hash__ = None

    def __repr__(self):
        return "SBool(%s)" % self.e


class SNum:
    __slots__ = ("e",)
    K = "r"

    def __deepcopy__(self, memo):
        return self

    def __copy__(self):
        return self

    def _op(self, o, f, res, swap=False, nanres=None):
        """res: 'a' arithmetic (int if both int), 'r' always real, 'b' comparison"""
        zo, ko = _zk(o)
        if zo is None:
            if _isnan(o):
                return float("nan") if nanres is None else nanres
            return NotImplemented
        a, ka = self.e, self.K
        if res == "r":
            if ka == "i":
                a = z3.ToReal(a)
            if ko == "i":
                zo = z3.ToReal(zo)
            kind = "r"
        else:
            if ka != ko:
                if ka == "i":
                    a = z3.ToReal(a)
                else:
                    zo = z3.ToReal(zo)
                kind = "r"
            else:
                kind = ka
            if res == "b":
                kind = "b"
        return _wrap_k(f(zo, a) if swap else f(a, zo), kind)

    def _bin(self, o, f, nanres=None):  # kept for external callers
        return self._op(o, f, "a", False, nanres)

    def __add__(self, o):
        return self._op(o, _add, "a")

    def __radd__(self, o):
        return self._op(o, _add, "a", True)

    def __sub__(self, o):
        return self._op(o, _sub, "a")

    def __rsub__(self, o):
        return self._op(o, _sub, "a", True)

    def __mul__(self, o):
        return self._op(o, _mul, "a")

    def __rmul__(self, o):
        return self._op(o, _mul, "a", True)

    def __neg__(self):
        return _wrap_k(-self.e, self.K)

    def __pos__(self):
        return self

    def __abs__(self):
        return _wrap_k(z3.If(self.e >= 0, self.e, -self.e), self.K)

    def __truediv__(self, o):
        return self._op(o, _rdiv, "r")

    def __rtruediv__(self, o):
        return self._op(o, _rdiv, "r", True)

    def __floordiv__(self, o):
        return self._op(o, _floordiv, "a")

    def __rfloordiv__(self, o):
        return self._op(o, _floordiv, "a", True)

    def __mod__(self, o):
        return self._op(o, _mod, "a")

    def __rmod__(self, o):
        return self._op(o, _mod, "a", True)

    def __pow__(self, o):
        if isinstance(o, float) and o == int(o):
            o = int(o)
        if isinstance(o, int) and not isinstance(o, bool) and 0 <= o <= 6:
            r = 1
            for _ in range(o):
                r = r * self
            return r
        if not is_sym(o) and (o == 0.5 or o == Fraction(1, 2)):
            return sym_sqrt(self)
        if isinstance(o, (SNum, int, float, Fraction)) and not isinstance(o, bool):
            # x ** w := exp(w * log x) for x > 0 (log / exp are the engine's uninterpreted pair with inverse axioms)
            if self > 0:
                return (o * self.log()).exp()
        raise ModelGap("pow with exponent %r" % (o,))

    def __rpow__(self, o):
        if isinstance(o, (int, float, Fraction)) and not isinstance(o, bool) and o > 0:
            from . import mnp

            return (self * mnp.log(o)).exp()
        raise ModelGap("pow with symbolic exponent")

    def __lt__(self, o):
        return self._op(o, _lt, "b", False, False)

    def __le__(self, o):
        return self._op(o, _le, "b", False, False)

    def __gt__(self, o):
        return self._op(o, _gt, "b", False, False)

    def __ge__(self, o):
        return self._op(o, _ge, "b", False, False)

    def __eq__(self, o):
        r = self._op(o, _eq, "b", False, False)
        return False if r is NotImplemented else r

    def __ne__(self, o):
        r = self._op(o, _ne, "b", False, True)
        return True if r is NotImplemented else r

    def __bool__(self):
        return Ctx.cur.branch(self.e != 0)

    # numpy's object-dtype loops for sqrt/cos/... call a method of that name on every element
    def sqrt(self):
        return sym_sqrt(self)

    def _ufm(self, name):
        from . import mnp

        return getattr(mnp, name)(self)

    def cos(self):
        return self._ufm("cos")

    def sin(self):
        return self._ufm("sin")

    def log(self):
        return self._ufm("log")

    def exp(self):
        return self._ufm("exp")

    def conjugate(self):
        return self

    def __repr__(self):
        return "%s(%s)" % (type(self).__name__, self.e)


class SInt(SNum):
    __slots__ = ()
    K = "i"

    def __init__(self, e):
        self.e = e

    def __index__(self):
        return Ctx.cur.concretize(self.e)

    __int__ = __index__

    def __hash__(self):
        return hash(Ctx.cur.concretize(self.e))

    def __float__(self):
        c = Ctx.cur
        e = z3.simplify(self.e)
        if not z3.is_int_value(e) and c.branch(z3.Or(e > 2 ** 53, e < -(2 ** 53))):
            # beyond float precision the conversion rounds: continue with the (possibly rounded) float of a witness
            # value of this path; the symbolic integer stays pinned to the witness, so exact comparisons see the loss
            if c.branch(e > 2 ** 53):
                w = 2 ** 53 + 1 if c._check(e == 2 ** 53 + 1) else None
            else:
                w = -(2 ** 53) - 1 if c._check(e == -(2 ** 53) - 1) else None
            if w is None:
                w = c.concretize(e)
            else:
                c.add(e == w)
                c._model = None
            return float(w)
        if z3.is_int_value(e):
            return float(e.as_long())
        # exact range: fork over the values when they are few, otherwise continue concolically with one representative
        # (such a path is reported inconclusive unless it exposes a violation)
        if c._check(z3.Or(e > (1 << 20), e < -(1 << 20))):
            return c.concretize_real(z3.ToReal(e))
        return float(c.concretize(e))

    def __invert__(self):
        return wrap(-self.e - 1)

    def __round__(self, n=None):
        return self

    def __trunc__(self):
        return self

    def __floor__(self):
        return self

    def __ceil__(self):
        return self


class SReal(SNum):
    __slots__ = ()

    def __init__(self, e):
        self.e = e

    __hash__ = None

    def __float__(self):
        # the code forces a machine float: continue *concolically* with one representative value (recorded; a
        # run that did this and found no violation is reported as inconclusive, never as a pass)
        return Ctx.cur.concretize_real(self.e)

    def __int__(self):
        # python int() truncates toward zero; the (integral) value is concretised by forking
        t = z3.If(self.e >= 0, z3.ToInt(self.e), -z3.ToInt(-self.e))
        return Ctx.cur.concretize(t)

    def __floor__(self):
        return wrap(z3.ToInt(self.e))

    def __ceil__(self):
        return wrap(-z3.ToInt(-self.e))

    def is_integer(self):
        return wrap(z3.ToReal(z3.ToInt(self.e)) == self.e)


UF_SQRT = z3.Function("vf_sqrt", z3.RealSort(), z3.RealSort())


def sym_sqrt(x):
    """sqrt(x) as an uninterpreted function application constrained by s >= 0 and s*s = x
    (congruence then gives sqrt(a) = sqrt(b) whenever a = b is provable)"""
    c = Ctx.cur
    e = z3.simplify(zreal(x))
    if z3.is_rational_value(e):
        fr = Fraction(e.numerator_as_long(), e.denominator_as_long())
        import math

        if fr >= 0:
            num, den = math.isqrt(fr.numerator), math.isqrt(fr.denominator)
            if num * num == fr.numerator and den * den == fr.denominator:
                return Fraction(num, den)
    s = UF_SQRT(e)
    key = e.get_id()
    if key not in c.sqrt_seen:
        c.sqrt_seen[key] = e  # keep the term alive so that the id stays unique
        _flag_nl()
        c.add(s >= 0)
        c.add(s * s == e)
        c._model = None
    return SReal(s)


def is_sym(x):
    return isinstance(x, (SInt, SReal, SBool))


# -------------------------------------------------------------------- exploration
class ExploreResult:
    def __init__(self):
        self.stats = Stats()
        self.complete = False
        self.reason = ""
        self.paths = []  # per-path records returned by fn
        self.violations = []  # (Violation, path record)


def explore(fn, max_paths=200000, deadline=None, prove_timeout_ms=60000, on_path=None, stop_on_violation=0):
    """Run `fn(ctx)` over all feasible decision sequences (depth-first work list).

    `fn` returns a JSON-able record for the path.  Exceptions other than Abort/Inconclusive propagate
    (a crash in repository code under symbolic inputs is the harness's business to catch).
    """
    res = ExploreResult()
    stats = res.stats
    work = [[]]
    while work:
        if stats.paths + stats.aborted >= max_paths:
            res.reason = "path budget exceeded"
            return res
        if deadline is not None and time.time() > deadline:
            res.reason = "time budget exceeded"
            return res
        log = work.pop()
        ctx = Ctx(list(log), stats, prove_timeout_ms)
        Ctx.cur = ctx
        try:
            rec = fn(ctx)
            stats.paths += 1
            res.paths.append(rec)
            if on_path is not None:
                on_path(ctx, rec)
            for v in ctx.violations:
                res.violations.append((v, ctx, rec))
        except Abort:
            stats.aborted += 1
        finally:
            Ctx.cur = None
        work.extend(ctx.pending)
        if stop_on_violation and len(res.violations) >= stop_on_violation:
            res.reason = "stopped after %d violations" % len(res.violations)
            return res
    res.complete = True
    return res
