"""Model of the numpy subset used by the anchored sktime code.

`NDArr` wraps a *real* numpy object array whose cells are python numbers or symbolic scalars.  Shape
logic (slicing, reshape, tile, stack, broadcasting) is delegated to real numpy; everything that depends
on values goes through the symbolic scalars.  Inside this module the builtins all/any/sum/min/max/abs/
int/float/bool/round are shadowed by numpy-like functions -- always use `_b.<name>` for the builtin.
"""
import builtins as _b
import math as _math
from fractions import Fraction

import numpy as _np
import z3

from .symx import SInt, SReal, SBool, SNum, Ctx, wrap, unwrap, _z, _zb, zreal, ModelGap, sym_sqrt, is_sym

nan = _b.float("nan")
NaN = nan
inf = _b.float("inf")
pi = Fraction(_math.pi)
e = Fraction(_math.e)
newaxis = None


class generic:
    pass


class number(generic):
    pass


class integer(number):
    pass


class floating(number):
    pass


class bool_(generic):
    def __new__(cls, x=False):
        return _b.bool(x)


class int64(integer):
    def __new__(cls, x=0):
        return int(x)


class float64(floating):
    def __new__(cls, x=0.0):
        return float(x)


int_ = int64
int32 = int64
int16 = int8 = uint8 = uint16 = uint32 = uint64 = int64  # narrower integer types: values are mathematical integers here (wrap-around shows in the replays)
float_ = float64
float32 = float64
object_ = object


class _Finfo:
    eps = Fraction(1, 2 ** 52)
    max = Fraction(_np.finfo(_np.float64).max)
    min = -Fraction(_np.finfo(_np.float64).max)
    tiny = Fraction(_np.finfo(_np.float64).tiny)


def finfo(_t=None):
    return _Finfo


class _DType:
    def __init__(self, kind):
        self.kind = {"int": "i", "float": "f", "bool": "b", "object": "O"}[kind]
        self.name = {"i": "int64", "f": "float64", "b": "bool", "O": "object"}[self.kind]

    def __repr__(self):
        return "mdtype(%s)" % self.name

    def __eq__(self, o):
        if isinstance(o, _DType):
            return self.kind == o.kind
        if o in (int, int64, "int", "int64", _np.int64):
            return self.kind == "i"
        if o in (float, float64, "float", "float64", _np.float64):
            return self.kind == "f"
        if o in (_b.bool, bool_, "bool"):
            return self.kind == "b"
        if o in (object, "object", "O"):
            return self.kind == "O"
        return False

    def __hash__(self):
        return hash(self.kind)


def dtype(x):
    if isinstance(x, _DType):
        return x
    if x in (int, int64, "int", "int64"):
        return _DType("int")
    if x in (float, float64, "float", "float64"):
        return _DType("float")
    if x in (_b.bool, bool_, "bool"):
        return _DType("bool")
    return _DType("object")


def issubdtype(dt, t):
    if not isinstance(dt, _DType):
        dt = dtype(dt)
    if t is integer or t is int or t is int64:
        return dt.kind == "i"
    if t is floating or t is float or t is float64:
        return dt.kind == "f"
    if t is number:
        return dt.kind in "if"
    if t is bool_ or t is _b.bool:
        return dt.kind == "b"
    raise ModelGap("issubdtype(%r, %r)" % (dt, t))


_BOOLS = (SBool, _b.bool, _np.bool_)
_FLOATS = (SReal, _b.float, Fraction, _np.floating)
_INTS = (SInt, _b.int, _np.integer)


def _kind(a):
    if a.size == 0:
        return "float"
    allbool = True
    k = "int"
    for x in a.flat:
        if isinstance(x, _BOOLS):
            continue
        allbool = False
        if isinstance(x, _FLOATS):
            k = "float"
        elif isinstance(x, _INTS):
            pass
        else:
            return "object"
    return "bool" if allbool else k


def _is_arraylike(x):
    return isinstance(x, (NDArr, list, tuple, _np.ndarray, _b.range)) or hasattr(x, "_mnp_values")


def _obj(x):
    """anything -> real numpy object array (no copy for NDArr)"""
    if isinstance(x, NDArr):
        return x._a
    if hasattr(x, "_mnp_values"):
        return x._mnp_values()._a
    if isinstance(x, _np.ndarray):
        if x.dtype == object:
            return x
        out = _np.empty(x.shape, dtype=object)
        flat = x.ravel().tolist()
        for i, idx in enumerate(_np.ndindex(x.shape)):
            out[idx] = flat[i]
        return out
    if isinstance(x, (list, tuple, _b.range)):
        lst = [_obj(el) if _is_arraylike(el) else el for el in x]
        if lst and _b.all(isinstance(el, _np.ndarray) for el in lst):
            shapes = {el.shape for el in lst}
            if len(shapes) == 1:
                return _np.stack(lst) if lst[0].ndim else _obj([el[()] for el in lst])
            raise ValueError("setting an array element with a sequence (inhomogeneous shape)")
        a = _np.empty(len(lst), dtype=object)
        for i, el in enumerate(lst):
            a[i] = el
        return a
    if hasattr(x, "to_pandas") and hasattr(x, "is_relative"):
        return _obj(x.to_pandas())
    if hasattr(x, "__len__") and hasattr(x, "__getitem__") and not isinstance(x, (str, bytes, dict)):
        return _obj([x[i] for i in _b.range(len(x))])
    a = _np.empty((), dtype=object)
    a[()] = x
    return a


def _ret(a):
    if isinstance(a, _np.ndarray):
        if a.ndim == 0:
            return a[()]
        if a.dtype != object:
            return NDArr(_obj(a))
        return NDArr(a)
    return a


def _isnanv(x):
    return isinstance(x, (_b.float, _np.floating)) and x != x


class NDArr:
    __array_priority__ = 1000

    def __init__(self, a, dt=None):
        assert isinstance(a, _np.ndarray) and a.dtype == object, type(a)
        self._a = a
        self._dt = dt  # declared kind, only consulted for empty arrays

    # --- structure
    @property
    def shape(self):
        return self._a.shape

    @property
    def ndim(self):
        return self._a.ndim

    @property
    def size(self):
        return self._a.size

    @property
    def dtype(self):
        if self._a.size == 0 and self._dt:
            return _DType(self._dt)
        return _DType(_kind(self._a))

    @property
    def T(self):
        return NDArr(self._a.T)

    def transpose(self, *axes):
        return NDArr(self._a.transpose(*axes))

    def __len__(self):
        return len(self._a)

    def __iter__(self):
        for i in _b.range(len(self._a)):
            yield _ret(self._a[i])

    def reshape(self, *s, **kw):
        if len(s) == 1 and isinstance(s[0], (tuple, list)):
            s = tuple(s[0])
        return NDArr(self._a.reshape(*[_b.int(x) for x in s]))

    def ravel(self):
        return NDArr(self._a.ravel())

    def flatten(self):
        return NDArr(self._a.flatten())

    def squeeze(self, axis=None):
        return _ret(self._a.squeeze(axis))

    def tolist(self):
        return self._a.tolist()

    def copy(self):
        return NDArr(self._a.copy())

    def to_numpy(self):
        return self

    def astype(self, t, copy=True):
        return _astype(self, t)

    def item(self):
        if self._a.size != 1:
            raise ValueError("can only convert an array of size 1 to a Python scalar")
        return self._a.flat[0]

    def fill(self, v):
        self._a.fill(v)

    @property
    def flat(self):
        return iter(self._a.flat)

    @property
    def flags(self):
        return self._a.flags

    def setflags(self, write=True):
        self._a.setflags(write=write)

    # --- indexing
    def _key(self, k):
        if isinstance(k, tuple):
            return tuple(self._key1(x) for x in k)
        return self._key1(k)

    def _key1(self, k):
        if isinstance(k, SInt):
            return _b.int(k)
        if isinstance(k, SBool):
            return _b.bool(k)
        if isinstance(k, slice):
            f = lambda v: None if v is None else _b.int(v)  # noqa: E731
            return slice(f(k.start), f(k.stop), f(k.step))
        if isinstance(k, (NDArr, _np.ndarray)) or hasattr(k, "_mnp_values"):
            a = _obj(k)
            if a.size and _b.all(isinstance(x, _BOOLS) for x in a.flat):
                return _np.array([_b.bool(x) for x in a.flat], dtype=_b.bool).reshape(a.shape)
            return _np.array([_b.int(x) for x in a.flat], dtype=_b.int).reshape(a.shape)
        if isinstance(k, list):
            if k and _b.all(isinstance(x, _BOOLS) for x in k):
                return [_b.bool(x) for x in k]
            return [_b.int(x) for x in k]
        return k

    def __getitem__(self, k):
        return _ret(self._a[self._key(k)])

    def __setitem__(self, k, v):
        if isinstance(v, NDArr):
            v = v._a
        elif _is_arraylike(v):
            v = _obj(v)
        kk = self._key(k)
        if isinstance(v, _np.ndarray):
            tgt = self._a[kk]
            if v.size == 1 and not isinstance(tgt, _np.ndarray):
                v = v.flat[0]  # numpy<=1.24: size-1 array assigned to a scalar cell
            elif not isinstance(tgt, _np.ndarray):
                raise ValueError("setting an array element with a sequence.")
        if getattr(self, "_intfixed", False):
            if isinstance(v, _np.ndarray):
                w = _np.empty(v.shape, dtype=object)
                for idx in _np.ndindex(v.shape):
                    w[idx] = _cast(v[idx], int)
                v = w
            else:
                v = _cast(v, int)
        self._a[kk] = v

    # --- arithmetic
    @staticmethod
    def _other(o):
        return _obj(o) if _is_arraylike(o) else o

    def _bin(self, o, f):
        if not _is_arraylike(o) and not _scalar_ok(o):
            return NotImplemented
        return _ret(f(self._a, self._other(o)))

    def __add__(self, o):
        return self._bin(o, lambda a, b: a + b)

    def __radd__(self, o):
        return self._bin(o, lambda a, b: b + a)

    def __sub__(self, o):
        return self._bin(o, lambda a, b: a - b)

    def __rsub__(self, o):
        return self._bin(o, lambda a, b: b - a)

    def __mul__(self, o):
        return self._bin(o, lambda a, b: a * b)

    def __rmul__(self, o):
        return self._bin(o, lambda a, b: b * a)

    def __truediv__(self, o):
        return self._bin(o, _safe_div)

    def __rtruediv__(self, o):
        return self._bin(o, lambda a, b: _safe_div(b, a))

    def __floordiv__(self, o):
        return self._bin(o, lambda a, b: a // b)

    def __mod__(self, o):
        return self._bin(o, lambda a, b: a % b)

    def __pow__(self, o):
        return self._bin(o, lambda a, b: a ** b)

    def sort(self, axis=-1, **kw):
        """in-place sort (1-D): writes the sorted values into the shared buffer"""
        if self._a.ndim != 1:
            raise ModelGap("in-place sort of an array with ndim != 1")
        vals = _sorted(list(self._a))
        for i, v in enumerate(vals):
            self._a[i] = v

    # --- in-place arithmetic writes into the shared buffer (views / aliases see it, as with numpy)
    def _iop(self, o, f):
        r = f(self, o)
        if not isinstance(r, NDArr) or r._a.shape != self._a.shape:
            return r
        new = r._a
        if getattr(self, "_intfixed", False):
            w = _np.empty(new.shape, dtype=object)
            for idx in _np.ndindex(new.shape):
                w[idx] = _cast(new[idx], int)
            new = w
        self._a[...] = new
        return self

    def __iadd__(self, o):
        return self._iop(o, lambda a, b: a + b)

    def __isub__(self, o):
        return self._iop(o, lambda a, b: a - b)

    def __imul__(self, o):
        return self._iop(o, lambda a, b: a * b)

    def __itruediv__(self, o):
        return self._iop(o, lambda a, b: a / b)

    def __neg__(self):
        return NDArr(-self._a)

    def __abs__(self):
        return abs(self)

    def _cmp(self, o, uf):
        if not _is_arraylike(o) and not _scalar_ok(o):
            return NotImplemented
        return _ret(uf(self._a, self._other(o), dtype=object))

    def __lt__(self, o):
        return self._cmp(o, _np.less)

    def __le__(self, o):
        return self._cmp(o, _np.less_equal)

    def __gt__(self, o):
        return self._cmp(o, _np.greater)

    def __ge__(self, o):
        return self._cmp(o, _np.greater_equal)

    def __eq__(self, o):
        if o is None:
            return False
        r = self._cmp(o, _np.equal)
        return False if r is NotImplemented else r

    def __ne__(self, o):
        if o is None:
            return True
        r = self._cmp(o, _np.not_equal)
        return True if r is NotImplemented else r

    def __and__(self, o):
        return self._bin(o, lambda a, b: a & b)

    __rand__ = __and__

    def __or__(self, o):
        return self._bin(o, lambda a, b: a | b)

    __ror__ = __or__

    def __invert__(self):
        out = _np.empty(self._a.shape, dtype=object)
        for idx in _np.ndindex(self._a.shape):
            x = self._a[idx]
            out[idx] = ~x if isinstance(x, (SBool, SInt)) else ((not x) if isinstance(x, (_b.bool, _np.bool_)) else ~x)
        return NDArr(out)

    __hash__ = None

    def __bool__(self):
        if self._a.size != 1:
            raise ValueError("The truth value of an array with more than one element is ambiguous. Use a.any() or a.all()")
        return _b.bool(self._a.flat[0])

    def __index__(self):
        if self._a.size != 1 or not isinstance(self._a.flat[0], _INTS):
            raise TypeError("only integer scalar arrays can be converted to a scalar index")
        return _b.int(self._a.flat[0])

    def __repr__(self):
        return "NDArr(%s)" % (self._a.tolist(),)

    def __contains__(self, x):
        for y in self._a.flat:
            if x == y:
                return True
        return False

    # reductions as methods
    def max(self, axis=None):
        return amax(self, axis=axis)

    def min(self, axis=None):
        return amin(self, axis=axis)

    def sum(self, axis=None):
        return sum(self, axis=axis)

    def mean(self, axis=None):
        return mean(self, axis=axis)

    def std(self, axis=None, ddof=0):
        return std(self, axis=axis, ddof=ddof)

    def all(self, axis=None):
        return all(self)

    def any(self, axis=None):
        return any(self)

    def argmin(self):
        return argmin(self)

    def argmax(self):
        return argmax(self)

    def cumsum(self):
        return cumsum(self)

    def dot(self, o):
        return dot(self, o)


ndarray = NDArr


def _scalar_ok(o):
    return o is None or isinstance(o, (SNum, SBool, _b.int, _b.float, Fraction, _np.number, _np.bool_, str))


def _safe_div1(a, b):
    if not is_sym(b) and not is_sym(a):
        if b == 0:
            if isinstance(a, _b.float) and a != a:
                return nan
            return nan if a == 0 else (inf if a > 0 else -inf)
        if isinstance(a, _b.int) and isinstance(b, _b.int):
            return Fraction(a, b)
    return a / b


def _safe_div(a, b):
    A, B = _np.broadcast_arrays(a if isinstance(a, _np.ndarray) else _obj(a), b if isinstance(b, _np.ndarray) else _obj(b))
    out = _np.empty(A.shape, dtype=object)
    for idx in _np.ndindex(A.shape):
        out[idx] = _safe_div1(A[idx], B[idx])
    return out


def _astype(x, t):
    a = _obj(x)
    out = _np.empty(a.shape, dtype=object)
    for idx in _np.ndindex(a.shape):
        out[idx] = _cast(a[idx], t)
    return _ret(out)


def _cast(v, t):
    if t in (int, int64, "int", "int64", _b.int, _np.int64):
        if isinstance(v, (SInt, _b.int)) and not isinstance(v, _b.bool):
            return v
        if isinstance(v, (SBool, _b.bool, _np.bool_)):
            return v + 0
        if isinstance(v, SReal):
            # C cast: truncation toward zero (symbolic reals are finite, never NaN)
            return SInt(z3.If(v.e >= 0, z3.ToInt(v.e), -z3.ToInt(-v.e)))
        return _b.int(v)
    if t in (float, float64, "float", "float64", _b.float, _np.float64):
        if isinstance(v, SInt):
            return SReal(z3.ToReal(v.e))
        if isinstance(v, SReal):
            return v
        if isinstance(v, SBool):
            return SReal(z3.ToReal(_z(v)))
        if isinstance(v, Fraction):
            return v
        if isinstance(v, _b.int) and not isinstance(v, _b.bool):
            return Fraction(v)
        return _b.float(v)
    if t in (_b.bool, bool_, "bool"):
        if isinstance(v, SBool):
            return v
        if isinstance(v, (SInt, SReal)):
            return v != 0
        return _b.bool(v)
    if t in (object, "object", "O"):
        return v
    raise ModelGap("astype(%r)" % (t,))


int = _b.int  # np.int / np.float / np.bool (numpy < 1.24) are the builtins
float = _b.float
bool = _b.bool
object = _b.object


def array(x, dtype=None, copy=True):
    a = _obj(x)
    if a.ndim == 0:
        v = a[()]
        return v if dtype is None else _cast(v, dtype)
    r = NDArr(a.copy())
    if dtype is not None:
        r = _astype(r, dtype)
        if isinstance(r, NDArr) and r.size == 0:
            r._dt = "int" if dtype in (int, _b.int, int64, "int", "int64") else ("float" if dtype in (float, _b.float, float64, "float") else None)
    return r


def asarray(x, dtype=None):
    if isinstance(x, NDArr) and dtype is None:
        return x
    return array(x, dtype=dtype)


def empty(shape, dtype=None):
    return full(shape, 0.0, dtype)


def _shape(shape):
    if isinstance(shape, (tuple, list)):
        return tuple(_b.int(s) for s in shape)
    return (_b.int(shape),)


def _intlike(dt):
    if isinstance(dt, _DType):
        return dt.kind == "i"
    return dt is not None and dt in (int, _b.int, int64, "int", "int64", _np.int64)


def zeros(shape, dtype=None):
    return full(shape, 0 if _intlike(dtype) else 0.0, dtype)


def ones(shape, dtype=None):
    return full(shape, 1 if _intlike(dtype) else 1.0, dtype)


def full(shape, v, dtype=None):
    a = _np.empty(_shape(shape), dtype=_b.object)
    if _intlike(dtype):
        v = _cast(v, int)
    a.fill(v)
    r = NDArr(a)
    if _intlike(dtype):
        r._intfixed = True  # an integer buffer: later assignments are cast (truncated) like numpy does
    return r


def _like_dtype(x, dtype):
    """the dtype numpy's *_like functions give the new array: the argument's own unless one is passed"""
    if dtype is not None:
        return dtype
    a = x if isinstance(x, NDArr) else (NDArr(_obj(x)) if _is_arraylike(x) else None)
    try:
        return int if (a is not None and a.size and a.dtype.kind == "i") else None
    except Exception:  # noqa
        return None


def zeros_like(x, dtype=None):
    dt = _like_dtype(x, dtype)
    return full(_obj(x).shape, 0 if _intlike(dt) else 0.0, dt)


def ones_like(x, dtype=None):
    dt = _like_dtype(x, dtype)
    return full(_obj(x).shape, 1 if _intlike(dt) else 1.0, dt)


def full_like(x, v, dtype=None):
    return full(_obj(x).shape, v, _like_dtype(x, dtype))


def empty_like(x, dtype=None):
    dt = _like_dtype(x, dtype)
    return full(_obj(x).shape, 0 if _intlike(dt) else 0.0, dt)


def arange(*args, dtype=None):
    if len(args) == 1:
        start, stop, step = 0, args[0], 1
    elif len(args) == 2:
        start, stop, step = args[0], args[1], 1
    else:
        start, stop, step = args
    if _b.all(isinstance(v, (_b.int, _np.integer)) for v in (start, stop, step)):
        return NDArr(_obj(list(_b.range(_b.int(start), _b.int(stop), _b.int(step)))))
    if not _b.all(isinstance(v, (_b.int, _np.integer, SInt)) for v in (start, stop, step)):
        raise ModelGap("arange with non-integer arguments")
    if isinstance(step, SInt):
        up = _b.bool(step > 0)
        if not up and _b.bool(step == 0):
            raise ZeroDivisionError("arange step must not be zero")
    else:
        if step == 0:
            raise ZeroDivisionError("arange step must not be zero")
        up = step > 0
    out = []
    n = 0
    while True:
        v = start + n * step
        if not ((v < stop) if up else (v > stop)):
            break
        out.append(v)
        n += 1
        if n > 64:
            raise ModelGap("arange longer than 64 (harness forgot a bound)")
    if not out:
        return NDArr(_np.empty(0, dtype=_b.object))
    return NDArr(_obj(out))


def linspace(start, stop, num=50):
    num = _b.int(num)
    if num == 1:
        return NDArr(_obj([start]))
    return NDArr(_obj([start + (stop - start) * Fraction(i, num - 1) for i in _b.range(num)]))


# ---------------------------------------------------------------- elementwise
def _emap(f, *xs):
    arrs = [_obj(x) for x in xs]
    bs = _np.broadcast_arrays(*arrs)
    out = _np.empty(bs[0].shape, dtype=_b.object)
    for idx in _np.ndindex(bs[0].shape):
        out[idx] = f(*[b[idx] for b in bs])
    r = _ret(out)
    x0 = xs[0]
    if hasattr(x0, "_from_ufunc") and isinstance(r, NDArr):
        return x0._from_ufunc(r)  # numpy ufuncs return a Series / DataFrame for pandas input
    return r


def _abs1(v):
    if _isnanv(v):
        return nan
    return v.__abs__()


def abs(x):
    return _emap(_abs1, x)


absolute = abs
fabs = abs


def _max1(a, b):
    if _isnanv(a) or _isnanv(b):
        return nan
    if not is_sym(a) and not is_sym(b):
        return a if a >= b else b
    za, zb = _zmix(a, b)
    return wrap(z3.If(za >= zb, za, zb))


def _min1(a, b):
    if _isnanv(a) or _isnanv(b):
        return nan
    if not is_sym(a) and not is_sym(b):
        return a if a <= b else b
    za, zb = _zmix(a, b)
    return wrap(z3.If(za <= zb, za, zb))


def _zmix(a, b):
    za, zb = _z(a), _z(b)
    if za is NotImplemented or zb is NotImplemented:
        raise ModelGap("non-numeric operand %r / %r" % (a, b))
    if z3.is_int(za) != z3.is_int(zb):
        za = z3.ToReal(za) if z3.is_int(za) else za
        zb = z3.ToReal(zb) if z3.is_int(zb) else zb
    return za, zb


def maximum(a, b):
    return _emap(_max1, a, b)


def minimum(a, b):
    return _emap(_min1, a, b)


def _where1(c, a, b):
    if isinstance(c, SBool):
        if _isnanv(a) or _isnanv(b):
            return a if _b.bool(c) else b
        za, zb = _zmix(a, b)
        return wrap(z3.If(c.e, za, zb))
    if isinstance(c, (SInt, SReal)):
        return _where1(c != 0, a, b)
    return a if c else b


def where(c, a=None, b=None):
    if a is None and b is None:
        arr = _obj(c)
        if arr.ndim != 1:
            raise ModelGap("where(cond) on ndim != 1")
        return (NDArr(_obj([i for i, v in enumerate(arr) if v])),)
    return _emap(_where1, c, a, b)


def square(x):
    return _emap(lambda v: v * v, x)


def _sqrt1(v):
    if _isnanv(v):
        return nan
    if is_sym(v):
        return sym_sqrt(v)
    if isinstance(v, (_b.int, Fraction)):
        return sym_sqrt(SReal(z3.RealVal(v))) if v >= 0 else nan
    return _math.sqrt(v) if v >= 0 else nan


def sqrt(x):
    return _emap(_sqrt1, x)


_R = z3.RealSort()
UF_LOG = z3.Function("np_log", _R, _R)
UF_EXP = z3.Function("np_exp", _R, _R)
UF_COS = z3.Function("np_cos", _R, _R)
UF_ARCCOS = z3.Function("np_arccos", _R, _R)
UF_SIN = z3.Function("np_sin", _R, _R)


def _uf1(F, pyf, axiom=None):
    def f(v):
        if _isnanv(v):
            return nan
        e = zreal(v)
        r = F(e)
        if axiom is not None and Ctx.cur is not None:
            c = Ctx.cur
            key = ("ax", F.name(), e.get_id())
            if key not in c.sqrt_seen:
                c.sqrt_seen[key] = e
                c.add(axiom(e, r))  # ground instance of a sound fact about the real function
                c._model = None
        return wrap(r)

    return lambda x: _emap(f, x)


log = _uf1(UF_LOG, _math.log, lambda x, r: z3.Implies(x > 0, UF_EXP(r) == x))
def log1p(x):
    return log(x + 1)


def expm1(x):
    return exp(x) - 1


exp = _uf1(UF_EXP, _math.exp, lambda x, r: z3.And(r > 0, UF_LOG(r) == x))
cos = _uf1(UF_COS, _math.cos)
sin = _uf1(UF_SIN, _math.sin)
arccos = _uf1(UF_ARCCOS, _math.acos)


def _ceil1(v):
    if isinstance(v, (SInt, _b.int)):
        return v
    if isinstance(v, SReal):
        return wrap(z3.ToReal(-z3.ToInt(-v.e)))
    return _math.ceil(v)


def ceil(x):
    return _emap(_ceil1, x)


def _floor1(v):
    if isinstance(v, (SInt, _b.int)):
        return v
    if isinstance(v, SReal):
        return wrap(z3.ToReal(z3.ToInt(v.e)))
    return _math.floor(v)


def floor(x):
    return _emap(_floor1, x)


def _sign1(v):
    if is_sym(v):
        zv = _z(v)
        return wrap(z3.If(zv > 0, 1, z3.If(zv < 0, -1, 0)))
    return (v > 0) - (v < 0)


def sign(x):
    return _emap(_sign1, x)


def isnan(x):
    return _emap(lambda v: _isnanv(v), x)


def isinf(x):
    return _emap(lambda v: isinstance(v, (_b.float, _np.floating)) and v in (inf, -inf), x)


def isfinite(x):
    return _emap(lambda v: not (isinstance(v, (_b.float, _np.floating)) and (v != v or v in (inf, -inf))), x)


def divide(a, b):
    return _ret(_safe_div(_obj(a), _obj(b)))


def multiply(a, b):
    return _ret(_obj(a) * _obj(b))


def add(a, b):
    return _ret(_obj(a) + _obj(b))


def subtract(a, b):
    return _ret(_obj(a) - _obj(b))


def power(a, b):
    return _ret(_obj(a) ** _obj(b))


def logical_and(a, b):
    return _emap(lambda p, q: p & q if (is_sym(p) or is_sym(q)) else (_b.bool(p) and _b.bool(q)), a, b)


def logical_or(a, b):
    return _emap(lambda p, q: p | q if (is_sym(p) or is_sym(q)) else (_b.bool(p) or _b.bool(q)), a, b)


def logical_not(a):
    return _emap(lambda p: ~p if isinstance(p, SBool) else (not p), a)


def clip(x, lo, hi):
    r = x
    if lo is not None:
        r = maximum(r, lo)
    if hi is not None:
        r = minimum(r, hi)
    return r


# ---------------------------------------------------------------- reductions
def _reduce(x, axis, f):
    a = _obj(x)
    if axis is None or a.ndim == 1:
        return f(list(a.flat))
    if a.ndim != 2:
        raise ModelGap("reduction over ndim>2 with axis")
    axis = axis % 2
    if axis == 0:
        return NDArr(_obj([f(list(a[:, j])) for j in _b.range(a.shape[1])])) if a.shape[1] else NDArr(_np.empty(0, dtype=_b.object))
    return NDArr(_obj([f(list(a[i, :])) for i in _b.range(a.shape[0])])) if a.shape[0] else NDArr(_np.empty(0, dtype=_b.object))


def _sum(lst):
    s = 0
    for v in lst:
        s = s + v
    return s


def sum(x, axis=None):
    return _reduce(x, axis, _sum)


def prod(x, axis=None):
    def f(lst):
        p = 1
        for v in lst:
            p = p * v
        return p

    return _reduce(x, axis, f)


def _mean(lst):
    if not lst:
        return nan
    return _safe_div1(_sum(lst), len(lst))


def mean(x, axis=None):
    return _reduce(x, axis, _mean)


def nanmean(x, axis=None):
    return _reduce(x, axis, lambda lst: _mean([v for v in lst if not _isnanv(v)]))


def nansum(x, axis=None):
    return _reduce(x, axis, lambda lst: _sum([v for v in lst if not _isnanv(v)]))


def var(x, axis=None, ddof=0):
    def f(lst):
        m = _mean(lst)
        return _safe_div1(_sum([(v - m) * (v - m) for v in lst]), len(lst) - ddof)

    return _reduce(x, axis, f)


def std(x, axis=None, ddof=0):
    return sqrt(var(x, axis=axis, ddof=ddof))


def _fold(lst, f):
    if not lst:
        raise ValueError("zero-size array to reduction operation which has no identity")
    m = lst[0]
    for v in lst[1:]:
        m = f(m, v)
    return m


def amax(x, axis=None):
    return _reduce(x, axis, lambda lst: _fold(lst, _max1))


def amin(x, axis=None):
    return _reduce(x, axis, lambda lst: _fold(lst, _min1))


max = amax
min = amin


def nanmax(x, axis=None):
    return _reduce(x, axis, lambda lst: _fold([v for v in lst if not _isnanv(v)], _max1))


def nanmin(x, axis=None):
    return _reduce(x, axis, lambda lst: _fold([v for v in lst if not _isnanv(v)], _min1))


def average(x, weights=None, axis=None):
    if weights is None:
        return mean(x, axis=axis)
    a = _obj(x)
    wv = _obj(weights)
    if axis is None:
        if wv.shape != a.shape:
            raise TypeError("Axis must be specified when shapes of a and weights differ.")
        return _wavg(list(a.flat), list(wv.flat))
    if a.ndim == 1:
        return _wavg(list(a), list(wv.flat))
    if a.ndim != 2:
        raise ModelGap("average ndim>2")
    axis = axis % 2
    if wv.ndim != 1 or wv.shape[0] != a.shape[axis]:
        raise ValueError("Length of weights not compatible with specified axis.")
    if axis == 0:
        return NDArr(_obj([_wavg(list(a[:, j]), list(wv)) for j in _b.range(a.shape[1])]))
    return NDArr(_obj([_wavg(list(a[i, :]), list(wv)) for i in _b.range(a.shape[0])]))


def _wavg(vals, wts):
    num = 0
    den = 0
    for v, wt in zip(vals, wts):
        num = num + v * wt
        den = den + wt
    return _safe_div1(num, den)


def _sorted(lst):
    out = []
    for v in lst:
        i = len(out)
        while i > 0 and out[i - 1] > v:
            i -= 1
        out.insert(i, v)
    return out


def _argsorted(lst):
    order = []
    for i, v in enumerate(lst):
        j = len(order)
        while j > 0 and lst[order[j - 1]] > v:
            j -= 1
        order.insert(j, i)
    return order


def sort(x, axis=-1):
    a = _obj(x)
    if a.ndim == 2:
        out = _np.empty(a.shape, dtype=object)
        if axis in (-1, 1):
            for i in range(a.shape[0]):
                for j, v in enumerate(_sorted(list(a[i]))):
                    out[i, j] = v
        elif axis == 0:
            for j in range(a.shape[1]):
                for i, v in enumerate(_sorted(list(a[:, j]))):
                    out[i, j] = v
        else:
            raise ModelGap("sort axis=%r" % (axis,))
        return NDArr(out)
    if a.ndim != 1:
        raise ModelGap("sort ndim>2")
    return NDArr(_obj(_sorted(list(a)))) if a.size else NDArr(a.copy())


def partition(x, kth, axis=-1):
    """np.partition, modelled by the full sort along the axis (the element at `kth` is the one numpy guarantees;
    the order of the others is one numpy may or may not produce -- the concrete replay decides)"""
    a = _obj(x)
    if a.ndim == 1:
        if not (-a.size <= kth < a.size):
            raise ValueError("kth(=%d) out of bounds (%d)" % (kth, a.size))
        return sort(a)
    if a.ndim == 2 and axis in (-1, 1):
        if not (-a.shape[1] <= kth < a.shape[1]):
            raise ValueError("kth(=%d) out of bounds (%d)" % (kth, a.shape[1]))
        out = _np.empty(a.shape, dtype=object)
        for i in range(a.shape[0]):
            for j, v in enumerate(_sorted(list(a[i]))):
                out[i, j] = v
        return NDArr(out)
    raise ModelGap("partition along axis 0 / ndim>2")


def argsort(x, axis=-1, kind=None):
    a = _obj(x)
    if a.ndim != 1:
        raise ModelGap("argsort ndim>1")
    return NDArr(_obj(_argsorted(list(a))))


def _median(lst):
    if not lst:
        return nan
    if _b.any(_isnanv(v) for v in lst):
        return nan
    s = _sorted(lst)
    n = len(s)
    return s[n // 2] if n % 2 else _safe_div1(s[n // 2 - 1] + s[n // 2], 2)


def median(x, axis=None):
    return _reduce(x, axis, _median)


def nanmedian(x, axis=None):
    return _reduce(x, axis, lambda lst: _median([v for v in lst if not _isnanv(v)]))


def argmin(x, axis=None):
    lst = list(_obj(x).flat)
    for i, v in enumerate(lst):
        if _isnanv(v):
            return i  # numpy: the first NaN is the minimum
    best = 0
    for i in _b.range(1, len(lst)):
        if lst[i] < lst[best]:
            best = i
    return best


def argmax(x, axis=None):
    lst = list(_obj(x).flat)
    for i, v in enumerate(lst):
        if _isnanv(v):
            return i  # numpy: the first NaN is the maximum
    best = 0
    for i in _b.range(1, len(lst)):
        if lst[i] > lst[best]:
            best = i
    return best


def cumsum(x, axis=None):
    lst = list(_obj(x).flat)
    out = []
    s = 0
    for v in lst:
        s = s + v
        out.append(s)
    return NDArr(_obj(out))


def diff(x, n=1, axis=-1):
    """n-th order discrete difference along `axis` (object arithmetic, so cells may be symbolic)"""
    a = _obj(x)
    if a.ndim == 0:
        raise ValueError("diff requires input that is at least one dimensional")
    n = _b.int(n)
    if n < 0:
        raise ValueError("order must be non-negative but got %r" % (n,))
    ax = _b.int(axis) % a.ndim
    for _ in _b.range(n):
        hi = [_b.slice(None)] * a.ndim
        lo = [_b.slice(None)] * a.ndim
        hi[ax] = _b.slice(1, None)
        lo[ax] = _b.slice(None, -1)
        a = a[tuple(hi)] - a[tuple(lo)]
    return NDArr(a)


def dot(a, b):
    A, B = _obj(a), _obj(b)
    return _ret(A.dot(B))


def all(x, axis=None):
    for v in _obj(x).flat:
        if not v:
            return False
    return True


def any(x, axis=None):
    for v in _obj(x).flat:
        if v:
            return True
    return False


def array_equal(a, b):
    a, b = _obj(a), _obj(b)
    if a.shape != b.shape:
        return False
    for x, y in zip(a.flat, b.flat):
        if not (x == y):
            return False
    return True


def allclose(a, b, **kw):
    return array_equal(a, b)


def isclose(a, b, rtol=1e-05, atol=1e-08, equal_nan=False):
    """numpy's definition, over the reals: |a - b| <= atol + rtol * |b| (tolerances as exact decimals)"""
    from fractions import Fraction as _F

    rt, at = _F(str(rtol)), _F(str(atol))

    def one(u, v):
        if _isnanv(u) or _isnanv(v):
            return _b.bool(equal_nan and _isnanv(u) and _isnanv(v))
        d = u - v
        return (abs(d) if not is_sym(d) else _abs1(d)) <= at + rt * (abs(v) if not is_sym(v) else _abs1(v))

    if _is_arraylike(a) or _is_arraylike(b):
        A, B = _obj(a), _obj(b)
        if A.shape == () or B.shape == ():
            if A.shape == ():
                return _emap(lambda v: one(a if not isinstance(a, NDArr) else A.item(), v), b)
            return _emap(lambda u: one(u, b if not isinstance(b, NDArr) else B.item()), a)
        return NDArr(_obj([one(x, y) for x, y in zip(list(A.flat), list(B.flat))]).reshape(A.shape))
    return one(a, b)


def union1d(a, b):
    """sorted union of the values of two arrays"""
    out = []
    for v in list(_obj(a).flat) + list(_obj(b).flat):
        if not _b.any(_b.bool(v == w) for w in out):
            out.append(v)
    return NDArr(_obj(_sorted(out))) if out else NDArr(_np.empty(0, dtype=object))


def unique(x):
    lst = _sorted(list(_obj(x).flat))
    out = []
    for v in lst:
        if not out or not (out[-1] == v):
            out.append(v)
    return NDArr(_obj(out))


def isin(x, test):
    tv = list(_obj(test).flat)

    def f(v):
        r = False
        for t in tv:
            eq = v == t
            r = eq if r is False else (r | eq)
        return r

    return _emap(f, x)


in1d = isin


# ---------------------------------------------------------------- shape ops
def repeat(v, repeats=None, axis=None, n=None):
    n = repeats if repeats is not None else n
    if _is_arraylike(v):
        return NDArr(_np.repeat(_obj(v), _b.int(n), axis=axis))
    return full(_b.int(n), v)


def tile(x, reps):
    if isinstance(reps, (tuple, list)):
        reps = tuple(_b.int(r) for r in reps)
    else:
        reps = _b.int(reps)
    return NDArr(_np.tile(_obj(x), reps))


def _1d(x):
    a = _obj(x)
    return a.reshape(1) if a.ndim == 0 else a


def hstack(xs):
    return NDArr(_np.hstack([_1d(x) for x in xs]))


def vstack(xs):
    return NDArr(_np.vstack([_1d(x) for x in xs]))


def stack(xs, axis=0):
    return NDArr(_np.stack([_obj(x) for x in xs], axis=axis))


def concatenate(xs, axis=0):
    return NDArr(_np.concatenate([_1d(x) for x in xs], axis=axis))


def append(a, v, axis=None):
    return NDArr(_np.concatenate([_1d(a).ravel(), _1d(v).ravel()]))


def column_stack(xs):
    cols = [_obj(x) for x in xs]
    cols = [c.reshape(-1, 1) if c.ndim == 1 else c for c in cols]
    return NDArr(_np.concatenate(cols, axis=1))


def expand_dims(x, axis):
    return NDArr(_np.expand_dims(_obj(x), axis))


def squeeze(x, axis=None):
    return _ret(_np.squeeze(_obj(x), axis))


def reshape(x, shape):
    return NDArr(_obj(x)).reshape(shape)


def ravel(x):
    return NDArr(_obj(x).ravel())


def transpose(x, axes=None):
    return NDArr(_np.transpose(_obj(x), axes))


def atleast_1d(x):
    return NDArr(_1d(x))


def atleast_2d(x):
    return NDArr(_np.atleast_2d(_obj(x)))


def roll(x, shift, axis=None):
    return NDArr(_np.roll(_obj(x), _b.int(shift), axis=axis))


def resize(x, n):
    if isinstance(n, (tuple, list)):
        n = tuple(_b.int(v) for v in n)
    else:
        n = _b.int(n)
    return NDArr(_np.resize(_obj(x), n))


def flip(x, axis=None):
    return NDArr(_np.flip(_obj(x), axis))


def array_split(x, n, axis=0):
    return [NDArr(p) for p in _np.array_split(_obj(x), _b.int(n), axis=axis)]


def shape(x):
    return _obj(x).shape


def ndim(x):
    return _obj(x).ndim


def size(x):
    return _obj(x).size


def isscalar(x):
    return isinstance(x, (SNum, SBool, _b.int, _b.float, Fraction, str, _np.number))


def round(x, decimals=0):
    raise ModelGap("np.round")


class _Testing:
    @staticmethod
    def assert_array_equal(a, b, err_msg=""):
        if not array_equal(a, b):
            raise AssertionError("Arrays are not equal " + err_msg)

    @staticmethod
    def assert_allclose(a, b, **kw):
        if not array_equal(a, b):
            raise AssertionError("Arrays are not close")


testing = _Testing()


class errstate:
    def __init__(self, **kw):
        pass

    def __enter__(self):
        return self

    def __exit__(self, *a):
        return False


def __getattr__(name):
    if name.startswith("__"):
        raise AttributeError(name)
    raise ModelGap("numpy model has no attribute %r" % name)
