"""Source loader: executes /repo's sktime sources (current working tree) in a private module world.

Selected imports (numpy, pandas, functools, joblib, a few sklearn/scipy/statsmodels names) are replaced
by the world's overrides; `sktime.*` is always read from REPO; everything else is the installed module.
"""
import builtins
import importlib
import os
import sys
import types

REPO = os.environ.get("VF_REPO", "/repo")


class MissingStub:
    """Stands for a name that the installed library no longer has."""

    def __init__(self, name):
        self._name = name

    def __call__(self, *a, **k):
        if k and not a:
            return lambda f: f  # decorator factory with kwargs only
        if len(a) == 1 and isinstance(a[0], str) and not k:
            return lambda f: f  # decorator factory like if_delegate_has_method("x")
        raise RuntimeError("missing external symbol called: %s" % self._name)

    def __repr__(self):
        return "<MissingStub %s>" % self._name


class World:
    kind = "generic"

    def __init__(self, overrides=None, extra_builtins=None, repo=None, register=False):
        self.repo = repo or REPO
        self.mods = {}
        self.overrides = dict(overrides or {})
        b = dict(vars(builtins))
        b["__import__"] = self._import
        if extra_builtins:
            b.update(extra_builtins)
        self.builtins = b
        self.loaded_files = []
        self.register = register

    # -- module resolution
    def _find(self, name):
        p = os.path.join(self.repo, *name.split("."))
        if os.path.isdir(p) and os.path.exists(os.path.join(p, "__init__.py")):
            return os.path.join(p, "__init__.py"), True
        if os.path.exists(p + ".py"):
            return p + ".py", False
        return None, False

    def load(self, name):
        if name in self.mods:
            return self.mods[name]
        if name in self.overrides:
            return self.overrides[name]
        top = name.split(".")[0]
        if top != "sktime":
            if top in self.overrides:
                obj = self.overrides[top]
                for part in name.split(".")[1:]:
                    obj = getattr(obj, part)
                return obj
            return importlib.import_module(name)
        parent = None
        if "." in name:
            parent = self.load(name.rsplit(".", 1)[0])
            if name in self.mods:  # loaded as a side effect of the parent package's __init__
                return self.mods[name]
        path, is_pkg = self._find(name)
        if path is None:
            raise ModuleNotFoundError(name)
        mod = types.ModuleType(name)
        mod.__file__ = path
        mod.__package__ = name if is_pkg else name.rsplit(".", 1)[0]
        if is_pkg:
            mod.__path__ = [os.path.dirname(path)]
        mod.__dict__["__builtins__"] = self.builtins
        self.mods[name] = mod
        if self.register:
            sys.modules[name] = mod
        with open(path) as fh:
            src = fh.read()
        self.loaded_files.append(path)
        try:
            exec(compile(src, path, "exec"), mod.__dict__)
        except BaseException:
            del self.mods[name]
            if self.register:
                sys.modules.pop(name, None)
            raise
        if parent is not None:
            setattr(parent, name.rsplit(".", 1)[1], mod)
        return mod

    def _import(self, name, globals=None, locals=None, fromlist=(), level=0):
        if level > 0:
            pkg = globals["__package__"]
            base = pkg.rsplit(".", level - 1)[0] if level > 1 else pkg
            name = "%s.%s" % (base, name) if name else base
        mod = self.load(name)
        if not fromlist:
            return self.load(name.split(".")[0])
        missing = False
        for f in fromlist:
            if f == "*":
                return mod
            if not hasattr(mod, f):
                sub = "%s.%s" % (name, f)
                try:
                    self.load(sub)
                except (ModuleNotFoundError, ImportError, AttributeError):
                    if name.split(".")[0] == "sktime":
                        raise ImportError("cannot import name %s from %s" % (f, name))
                    missing = True
        if not missing:
            return mod
        proxy = types.SimpleNamespace()
        for f in fromlist:
            setattr(proxy, f, getattr(mod, f, MissingStub("%s.%s" % (name, f))))
        return proxy


# ------------------------------------------------------------------ executed-function monitor
class FuncMonitor:
    """Collects (file, qualname) of every repository function entered (sys.monitoring, py>=3.12)."""

    TOOL = 3

    def __init__(self, repo=None):
        self.repo = os.path.realpath(repo or REPO)
        self.seen = set()
        self.on = False

    def start(self):
        mon = getattr(sys, "monitoring", None)
        if mon is None:
            return
        try:
            mon.use_tool_id(self.TOOL, "vf")
        except ValueError:
            return
        ev = mon.events.PY_START

        def cb(code, off):
            fn = code.co_filename
            if fn.startswith(self.repo):
                self.seen.add((os.path.relpath(fn, self.repo), code.co_qualname))
            return mon.DISABLE

        mon.register_callback(self.TOOL, ev, cb)
        mon.set_events(self.TOOL, ev)
        self.on = True

    def stop(self):
        if self.on:
            mon = sys.monitoring
            mon.set_events(self.TOOL, 0)
            mon.register_callback(self.TOOL, mon.events.PY_START, None)
            mon.free_tool_id(self.TOOL)
            self.on = False

    def functions(self):
        return sorted("%s:%s" % (f, q) for f, q in self.seen if q != "<module>")
