#!/bin/sh
# Idempotent, offline: overlay venv (next to this script) on top of /venv with z3-solver from the local wheelhouse.
set -e
HERE=$(cd "$(dirname "$0")" && pwd)
V="$HERE/.venv"
if [ ! -x "$V/bin/python" ] || ! "$V/bin/python" -c "import z3, numpy, pandas, sklearn" 2>/dev/null; then
  rm -rf "$V"
  /venv/bin/python -m venv "$V"
  echo "import site; site.addsitedir('/venv/lib/python3.12/site-packages')" > "$V/lib/python3.12/site-packages/vf_overlay.pth"
  PIP_NO_INDEX=1 "$V/bin/pip" install -q --no-index --find-links /opt/veriftools/wheels z3-solver >/dev/null
  "$V/bin/python" -c "import z3, numpy, pandas, sklearn"
fi
